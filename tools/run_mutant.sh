#!/bin/bash
# usage: tools/run_mutant.sh <seeded-id> <check> [<check>...]   (applies the patch to /repo, runs checks, ALWAYS reverts)
id=$1; shift
cd /verif
if ! git -C /repo diff --quiet; then echo "/repo dirty"; exit 3; fi
git -C /repo apply /verif/seeded/$id/patch.diff || exit 3
trap 'git -C /repo checkout -- . ' EXIT
for c in "$@"; do
  tier=${TIER:-quick}
  out=$(bin/vcheck $c --tier $tier 2>&1); rc=$?
  nv=$(echo "$out" | grep -c "^VIOLATION")
  echo "MUTANT $id check=$c tier=$tier exit=$rc violations=$nv"
  echo "$out" | grep -A1 "^VIOLATION" | head -8 | cut -c1-330
  echo "$out" | grep "HARNESS-ERROR" | head -3 | cut -c1-300
done
