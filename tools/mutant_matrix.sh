#!/bin/bash
# Re-runs every seeded change against the check of its property (quick tier) and writes seeded/RESULTS.json.
# Applies each patch to /repo and ALWAYS reverts it; refuses to start on a dirty /repo.  Exclusive: nothing else
# may read /repo while this runs.   usage: tools/mutant_matrix.sh [id ...]
cd /verif
if ! git -C /repo diff --quiet; then echo "/repo dirty"; exit 3; fi
ids="$@"; [ -z "$ids" ] && ids=$(ls seeded | grep -E '^C[0-9]{2}[A-Z]$')
out=/verif/seeded/RESULTS.json; tmp=$(mktemp -p /dev/shm)
echo "{" > $tmp; first=1
for id in $ids; do
  prop=${id:0:3}; checks=$prop
  [ "$id" = "C09D" ] && checks="C18"
  git -C /repo apply /verif/seeded/$id/patch.diff || { echo "cannot apply $id"; continue; }
  for c in $checks; do
    s=$(date +%s); o=$(bin/vcheck $c --tier quick 2>&1); rc=$?
    nv=$(echo "$o" | grep -c "^VIOLATION")
    sig=$(echo "$o" | grep -A1 "^VIOLATION" | grep -o '"signature": "[^"]*"' | head -1 | cut -d'"' -f4)
    [ $first = 1 ] || echo "," >> $tmp; first=0
    printf ' "%s": {"check": "%s", "exit": %s, "violations": %s, "first_signature": "%s", "seconds": %s}' "$id" "$c" "$rc" "$nv" "${sig//\"/}" "$(( $(date +%s)-s ))" >> $tmp
    echo "MATRIX $id check=$c exit=$rc violations=$nv $sig"
  done
  git -C /repo checkout -- .
done
echo "" >> $tmp; echo "}" >> $tmp; mv $tmp $out
