#!/venv/bin/python
"""Rewrites the 'bounds actually completed' table of DESIGN.md section 10 (between the BOUNDS markers) from the evidence
files of the last run of each check.  usage: tools/bounds_table.py [--write]"""
import glob
import json
import sys

DESC = {
 "C01": "every commit of 23 workload runs (incl. the commits of Orchestrator.start) x 2 ledger cuts x 2 restart orders, single crash",
 "C02": "all orders x 1 worker death (after the claim / before the processed mark / before the ack) on 30 workloads + all DAGs <=3 stages; all orders on the heavy joins and 4-stage DAGs; slow branch with a 20-round horizon; completion order in the state on 3 fan-ins",
 "C03": "DAGs <=3 stages (+ each stage halting) with 1 spurious StartStage anywhere; 4-stage DAGs with >=2 edges all orders; 20 join / loop / OR-split workloads with 1 spurious StartStage; 6 workloads next to a bystander workflow; 4 loops under 1 worker death",
 "C04": "3 scenarios x <=2 preemptions (8 shards each), 3 scenarios x <=1, 3 workers x <=1, late-branch scenarios",
 "C05": "all orders x 1 worker death on 36 workloads, all orders on 9 heavy ones, cancel-anywhere on 5, pause+resume on 4, cancel region, milestone; 1 transient database error at any statement of the in-order run of 12; E3 concurrency-slot race <=2 preemptions",
 "C06": "audit rows of all orders x worker death / cancel / sweep / signal / pause+resume(+cancel) / operator restart / cancel region on 67 jobs; E3 races incl. CancelWorkflow vs the workflow-row writers; table drift",
 "C07": "7 writer scenarios (2 writers <=2 preemptions, 3 writers <=1) + 5 engine pairs <=2 + 48 fault positions x <=1 + ALL pairs of co-ready messages at every in-order / newest-first state of 8 workloads x <=1",
 "C08": "op sequences depth 9 from the empty queue and depth 7 from two 'already dead-lettered' states (row attempt limit in the state identity); pollers 2x2 <=3, 2x3 <=2, 3x2 <=2; 10 crash images",
 "C09": "all orders x worker death x restart after a long downtime (also into a process whose filter another store hydrated) x rotation (with / without re-hydration), trust off and on; filter sequences depth 4",
 "C10": "sweep anywhere x2 on 23 workloads, x1 on 9 heavy; once-vs-twice at every crash image of 6; E3 sweep || handler <=2",
 "C11": "6 E3 scenarios (<=2 / <=1 preemptions, chosen-message scripts) + E1 all orders with retention on 4",
 "C12": "all orders on 16 workloads + cancel on failing and succeeding ones; every prefix and every snapshot position at every quiescent state",
 "C13": "every commit image (and the instant before every commit) of 16 runs + 3 with a reacting subscriber; every statement x 2 fault kinds + every failing COMMIT of every RunTask/CompleteTask/CompleteStage step of 8",
 "C14": "k=0..12 x ctx on/off, positions 1-3 with sibling, poll 1-3, worker death on k=10 / k=3; crash images of the polling / retrying deliveries of 3",
 "C15": "5 loop shapes x requested 0..limit+2 x 5 limit settings x all orders; forward jump; all 110 loop bodies on 3-5 stages x 2 declaration orders (5-stage bodies in delivery order); worker death on 6 small loops",
 "C16": "all DAGs <=4 + 21 workloads all orders (own-context mixes, partial outputs, sibling fan-in loop) + all loop bodies on 3-4 stages; reducers <=3 branches over falsy / negative / missing values",
 "C17": "cancel in every state x all orders on 10 workloads; cancel at every step x crash at every later commit on 3",
 "C18": "signal in every state x all orders x 1 worker death (persistent, transient); gates needing 2 / 3 signals; multi-task gate with a sweep; gate behind a forward jump; 237 crash images; E3 signal || handler <=2",
 "C19": "store / message round trips: 28 values, every enum member, 10 read-modify-write rounds through 4 save paths",
 "C20": "113 k graphs; ~280 k expression evaluations incl. nesting to depth 5000; OR-split decisions",
}


def rows():
    out = []
    for f in sorted(glob.glob("/verif/evidence/C*.json")):
        d = json.load(open(f))
        cov = d.get("coverage", {})
        h = cov.get("headline", {})
        size = ", ".join(f"{v:,} {k}".replace(",", " ") for k, v in h.items() if k != "capped" and isinstance(v, int))
        pid = d.get("property_id")
        ex = "yes" if cov.get("exhaustive", True) else f"no ({h.get('capped')} capped jobs)"
        out.append(f"| {pid} | {DESC.get(pid, '')} | {size} | {ex} | {round(d.get('wall_s') or 0)} s |")
    return out


if __name__ == "__main__":
    table = ["| id | bound completed (" + json.load(open(sorted(glob.glob('/verif/evidence/C*.json'))[0])).get("tier", "?")
             + " tier, unchanged tree, 16 cores) | size | exhaustive within the bound | wall |", "|---|---|---|---|---|"] + rows()
    if "--write" in sys.argv:
        p = "/verif/DESIGN.md"
        s = open(p).read()
        a, b = s.index("<!-- BOUNDS:BEGIN -->"), s.index("<!-- BOUNDS:END -->")
        s = s[:a] + "<!-- BOUNDS:BEGIN -->\n" + "\n".join(table) + "\n" + s[b:]
        open(p, "w").write(s)
        print("DESIGN.md updated")
    else:
        print("\n".join(table))
