#!/venv/bin/python
"""Prints the 'bounds actually completed' rows of DESIGN.md section 10 from the evidence files of the last run."""
import glob
import json

for f in sorted(glob.glob("/verif/evidence/C*.json")):
    d = json.load(open(f))
    cov = d.get("coverage", {})
    h = cov.get("headline", {})
    size = ", ".join(f"{v:,} {k}".replace(",", " ") for k, v in h.items() if k not in ("capped",) and isinstance(v, int))
    capped = h.get("capped")
    print(f"| {d.get('property_id')} | {d.get('tier')} | {size}{' (capped jobs: %s)' % capped if capped else ''} | "
          f"{'exhaustive' if cov.get('exhaustive', True) else 'NOT exhaustive (cap hit)'} | {round(d.get('wall_s') or 0)} s |")
