#!/bin/bash
# run every registered quick (or $TIER) check, print one line each
cd /verif
for c in $(python3 -c "import json;print(' '.join(x['property_id'] for x in json.load(open('MANIFEST.json'))['checks']))"); do
  s=$(date +%s); out=$(bin/vcheck $c --tier ${TIER:-quick} 2>&1); rc=$?; e=$(date +%s)
  echo "$c exit=$rc $((e-s))s viol=$(echo "$out" | grep -c '^VIOLATION') known=$(echo "$out" | grep -c '^KNOWN-FINDING') $(echo "$out" | tail -1 | cut -c1-120)"
done
