#!/venv/bin/python
"""Writes seeded/<id>/meta.json for the seeded changes of waves 2-4 from the table below (wave 1 was written by hand)
and prints the DESIGN.md section-12 rows.  Confirmation results are the ones observed in scratch worktrees."""
import json
import os
import sys

HOW = ("applied patch.diff in a scratch git worktree of /repo (outside /repo and /verif), ran the demonstration with and "
       "without it and the full non-postgres test suite with it (PYTHONPATH=<worktree>/src)")
FLAKY = ("one run under heavy parallel load had 1 failure in the timing-sensitive "
         "tests/test_workflow_control.py::TestCancelWorkflow::test_cancel_stops_running_workflow (unrelated to the change; "
         "it also fails occasionally on the unmodified tree under load); the seeding agent's own run of the suite with "
         "the patch, and where repeated here the re-run, passed all 1080")

REBASED = ("a later 'fix:' commit touched the same lines: patch.diff is the same change re-applied by hand to the current "
           "/repo HEAD (git apply works again), patch.orig.diff is the sub-agent's original")

# id: (change, needs, detected_by, note on how the check had to be strengthened ('' = caught as it was), suite line)
T = {
 "C04A": ("StartStage re-reads and re-commits the plan after losing the optimistic lock", "a zombie re-planner racing the original claimer on a stage whose tasks are built at start time", "C04 quick (E3)", "", "1080 passed"),
 "C04B": ("CompleteStage pushes the downstream StartStage/SkipStage before committing its own completion", "two workers, one preemption between the push and the completion commit", "C04 quick (E3)", "needed a scenario in which a late branch completes while the join is being started (added)", "1080 passed"),
 "C07A": ("store_stage(expected_phase=...) checks the phase instead of the version", "two writers of the same join stage at the same version", "C07 quick (E3 writers)", "", "1080 passed"),
 "C07B": ("AtomicTransaction records the already incremented versions for rollback", "a lock error inside a transaction, one foreign commit, then the engine's own retry with the stale object", "C07 quick (E3 x one injected lock error)", "missed at first: one-shot fault injection at every statement was combined with the interleaving exploration", "1080 passed"),
 "C08A": ("poll_one's claim UPDATE no longer bumps the row version", "two pollers: W1 SELECT, W2 SELECT+UPDATE+commit, W1 UPDATE", "C08 quick (E3 pollers)", "", "1080 passed"),
 "C08B": ("DLQ sweep skips rows whose locked_until is not NULL", "the last permitted delivery ends by lock expiry", "C08 quick (E4 op sequences)", "", "1080 passed"),
 "C09A": ("the 'trust bloom negatives' decision is cached on the processor", "the shared filter rotated by someone else, then redelivery of a committed message", "C09 quick (E1, trust on)", "missed at first: action 'rotate-bare' (reset without re-hydration) added", "1080 passed"),
 "C09B": ("hydrate() swaps in a freshly built bit array", "mark_seen(x) before hydrate(ids without x)", "C09 quick (E4 filter sequences)", "", "1080 passed"),
 "C10A": ("has_pending_message_for_task only counts StartTask/RunTask", "sweep between RunTask and CompleteTask, the new RunTask overtaking", "C10 quick (E1 sweep anywhere)", "", "1080 passed"),
 "C10B": ("recovery falls through to the next-task branch when the running task has its message queued", "multi-task stage, sweep while a non-last task runs", "C10 quick (E1)", "", "1080 passed"),
 "C11A": ("retention sweep also deletes claims whose owner stage finished", "a sibling past its fast-path read, winner finished, sweep, sibling resumes", "C11 quick (E3 + retention)", "missed at first: scripts that deliver chosen messages and a longer scenario (winner runs to completion) added", "1080 passed"),
 "C11B": ("acquire_claim became check-then-insert", "two workers, W1's claim transaction between W2's SELECT and INSERT", "C11 quick (E3)", "", "1080 passed"),
 "C12A": ("snapshot replay resumes one event too late", "a snapshot that is not at the end of the log", "C12 quick (every snapshot position)", "", "1080 passed"),
 "C12B": ("workflow completion event chosen from the cancel flag", "cancel delivered before the CompleteWorkflow of a TERMINAL stage", "C12 quick (cancel on failing workloads)", "missed at first: cancel-anywhere was only run on succeeding workloads", "1080 passed"),
 "C13A": ("event-bus publication moved ahead of COMMIT", "a failing commit, or a subscriber looking at the database", "C13 quick", "missed at first: the instant just before every commit became a crash point for the subscriber log, and failing commits were added to the fault kinds", "1080 passed (1 flaky failure in one run)"),
 "C13B": ("TASK_COMPLETED recorded after the completion transaction", "crash between the two commits", "C13 quick (crash images)", "", "1080 passed (1 flaky failure in one run)"),
 "C14A": ("poll_one lets the row's delivery counter override the carried retry count", "a retry row claimed by a worker that dies before handling it", "C14 quick", "missed at first: worker death right after the claim ('dp') added as a die point of E1 (now the default)", "1080 passed"),
 "C14B": ("the context-update retry path re-queues the original message", "TransientError with context_update, >= 10 failures", "C14 quick", "", "1080 passed"),
 "C15A": ("re-arm traversal marks a fan-in visited when first examined", "loop body with a fan-in whose arms differ in length", "C15 quick", "missed at first: loop bodies are now ALL single-root/single-sink DAGs on 3-5 stages (6 in thorough), both declaration orders", "1080 passed"),
 "C15B": ("workflow-level _max_jumps=0 falls back to the default", "_max_jumps: 0 in the workflow context", "C15 quick", "", "1080 passed"),
 "C16A": ("ancestor walk stops at stages without outputs", "X -> Q -> S with Q publishing nothing", "C16 quick", "", "1080 passed"),
 "C16B": ("reducers drop falsy branch values", "a branch publishing 0 / False / '' / []", "C16 quick (E5 reducers)", "missed at first: reducer alphabet had no falsy, negative or missing values", "1080 passed"),
 "C18A": ("the resume commit no longer records SignalStage as processed", "worker death after the handler's commit", "C18 quick", "", "1080 passed"),
 "C18B": ("consuming one buffered signal discards the rest of the buffer", "two persistent signals buffered, a task suspending once per signal", "C18 quick", "missed at first: gate needing N signals with N distinct persistent signals added", "1080 passed"),
 "C19A": ("AtomicTransaction.store_stage(expected_phase=...) does not write outputs", "a CAS save after outputs changed", "C19 quick", "missed at first: read-modify-write rounds now change outputs and use all four save paths", "1080 passed"),
 "C19B": ("queue serializer drops '_'-prefixed keys in nested dicts", "direct queue.push of a message whose dict field has such keys", "C19 quick", "missed at first: value alphabet had no underscore keys", "1080 passed"),
 "C20A": ("subscript on list/str with a non-int key raises TypeError", "items['name']", "C20 quick", "", "1080 passed"),
 "C20B": ("topological_sort forgets the leftover check", "a cycle next to a root stage", "C20 quick", "", "1080 passed"),
 # wave 4
 "C01C": ("JumpToStage's processed mark written in a separate commit after the jump", "crash between the two commits: the jump is applied twice", "C01 quick", "", None),
 "C01D": ("recovery's early branch for NOT_STARTED workflows removed", "crash inside Orchestrator.start", "C01 quick", "", None),
 "C02C": ("CompleteWorkflow's 'stages still running' budget reads concurrency_max_retries (3)", "a branch in flight for more than 3 polling rounds", "C02 quick", "missed at first: differential oracle only - the in-order reference run was wrong in the same way; workload slow_branch and an absolute expectation for plainly succeeding workloads added", None),
 "C02D": ("JumpToStage dropped as 'already applied' when no source task is RUNNING", "CompleteTask(REDIRECT) delivered before its JumpToStage", "C02 quick", "missed at first: its wedge had the same signature as the recorded stale-REDIRECT finding; known-finding classes are now distinguished by the history that produced them, and every class keeps its own instances", None),
 "C03C": ("get_upstream_stages reads the requisites by ref_id only (no execution scope)", "an older workflow in the same store using the same ref_id with other dependencies", "C03 quick", "missed at first: bystander workflow in the same database added", None),
 "C03D": ("_jump_bypass cleared after the stage was stored", "jump to X, later jump upstream of X, duplicate StartStage(X)", "C03 quick", "missed at first: loop with two different jump targets added", None),
 "C05C": ("CompleteTask(CANCELED) pushes no CompleteStage", "a stage started after a failing sibling finished the workflow", "C05 quick", "", None),
 "C05D": ("StartStage marks its message processed in the claim transaction", "a transient error between claim and plan, then redelivery", "NOT DETECTED", "observationally masked on this code base: after a fault in that window the unmodified engine is already stuck (recorded claim-plan-window defect) unless a recovery sweep runs, and with the sweep both versions recover", None),
 "C06C": ("ResumeStage trusts the stale paused details", "two parked stages, unpause, cancel overtaking the resumes", "C06 quick", "missed at first: pause + unpause + cancel on parallel stages added", None),
 "C06D": ("CancelWorkflow writes back its stale execution row", "CancelWorkflow interleaved with CompleteWorkflow / StartWorkflow", "C06 quick (E3)", "missed at first: E3 scenarios racing CancelWorkflow against the workflow-row writers added", None),
 "C09C": ("filter hydration limited to records of the last 24 h", "restart after more than a day, negatives trusted", "C09 quick", "missed at first: restart now happens after a long downtime (processed records aged)", None),
 "C09D": ("SignalStage's processed record moved out of the buffering transaction", "crash between the two commits", "C18 quick (not C09)", "caught by C18's crash images after its oracle learned to reject a consumed signal left in the buffer (and stopped re-sending the signal in images that already contain it)", None),
 "C10C": ("ContinueParentStage starts the first NOT_STARTED task instead of the first task", "builder-planned before-stage, two tasks, a sweep", "C10 quick", "missed at first: synthetic stage with two own tasks added", None),
 "C10D": ("zombie check only counts unfinished synthetic children", "task-less stage with a builder-planned before-stage, a sweep", "C10 quick", "missed at first: task-less gate stage added", None),
 "C12C": ("no event for tasks completed CANCELED / REDIRECT", "RunTask on a finished workflow", "C12 quick", "", None),
 "C12D": ("latest snapshot served from an in-process cache that replay mutates", "an as-of rebuild after a rebuild", "C12 quick", "", None),
 "C16C": ("outputs of a still-RUNNING jump source are not cleared", "a jump task publishing keys only in abandoned iterations", "C16 quick", "missed at first: the reference used the durable outputs themselves; it is now an independent model built from the execution ledger", None),
 "C16D": ("a stage's own scalar is appended to an ancestor's list", "own scalar under a key the ancestors publish as a list", "C16 quick", "missed at first: mixed-type own values added", None),
 "C17C": ("cancel flag written after the fan-out commit", "a fault / crash between the two commits", "C17 quick (E2)", "missed at first: crash points inside the cancel's own steps added; the monitor arms on the processed record as well as on the flag", None),
 "C17D": ("JumpToStage refused on status.is_complete instead of is_canceled", "jump delivered between the cancel and CompleteWorkflow", "C17 quick", "", None),
 # wave 5
 "C04E": ("retrieve_stage reads the tasks before the stage row", "W1 claim, W2 tasks SELECT, W1 plan commit, W2 stage SELECT: zombie re-plan", "C04 quick (E3, builder-made tasks)", "", None),
 "C04F": ("planner adopts the persisted row version after the claim", "second worker re-claims the unplanned stage between claim and plan", "C04 quick (E3, builder-made tasks)", "", None),
 "C07E": ("in-memory versions not restored when a transaction body fails", "fault after store_stage, one foreign commit, retry with the same object", "C07 quick (E3 x injected lock error)", "", None),
 "C07F": ("N-of-M join tracking merges into a stale copy of the join stage", "two upstreams of a quorum join completing interleaved", "C07 quick (E3 engine pair)", "", None),
 "C08E": ("queue schema drops the max_attempts column default", "fail to the limit, sweep, replay, fail again, sweep", "NOT DETECTED (neutralised)", "led to the discovery that the op-sequence search merged rows with different attempt limits (DESIGN 11.4) and to fix ffd7f51; with that fix the sweep no longer depends on the row's limit and this change no longer breaks the property (its own demonstration passes on the repaired tree)", None),
 "C08F": ("lock heartbeat not stopped when the handler fails", "threaded processor, handler exception, a heartbeat tick between reschedule and redelivery", "NOT DETECTED", "outside the model: the lock-heartbeat thread is switched off in every harness (a wall-clock timer thread; trusted-base assumption in DESIGN 2.2 / 6)", None),
 "C11E": ("mutex waiter's retry pushed inside the claim transaction that is rolled back", "two workers racing for one mutex key", "C11 quick (E3)", "", None),
 "C11F": ("deferred-choice fast path only counts a RUNNING sibling as claimed", "winner finished, retention sweep, late StartStage", "C11 quick (E1 + retention)", "", None),
 "C13E": ("join bookkeeping (plain store_stage, own commit) moved inside the completion transaction", "first-of / quorum join downstream, crash after that commit", "C13 quick", "missed at first: no join workloads in the crash-image set", None),
 "C13F": ("transaction scope unbound only after deferred publication", "a synchronous subscriber that records an event in reaction", "C13 quick", "missed at first: the harness subscriber was a pure observer; a reacting subscriber was added", None),
 "C14E": ("execute_atomic marks the source message processed only when a stage is stored", "transient failure without context update, worker death before the processor's mark", "C14 quick", "", None),
 "C14F": ("polling result split into two transactions (mark + next poll, then context)", "crash between the two commits", "C14 quick (E2)", "missed at first: crash images of the polling / retrying deliveries added", None),
 "C15E": ("a backward jump does not re-arm a task already marked REDIRECT", "CompleteTask(REDIRECT) before its JumpToStage", "C15 quick", "", None),
 "C15F": ("RunTask's redirect branch does not mark its delivery processed in the transaction", "worker death before the processor's mark, redelivery before the jump", "C15 quick", "missed at first: worker death on the small loops added to the quick tier (C02 caught it as it was)", None),
 "C18E": ("recovery treats SUSPENDED / PAUSED stages as in flight", "a second task behind the suspending one, a sweep while suspended", "C18 quick", "missed at first: multi-task gate with a sweep added", None),
 "C18F": ("re-arming a stage drops its buffered signals", "persistent signal buffered before a forward jump re-arms the gate", "C18 quick", "missed at first: gate reached by a forward jump added", None),
 "C19E": ("task timestamps written with COALESCE (never cleared)", "save None over a recorded timestamp", "C19 quick", "missed at first: fill-then-clear rounds added", None),
 "C19F": ("empty-string control-flow settings read back as None", "mutex_key = ''", "C19 quick", "", None),
 "C20E": ("malformed stageEnabled expression parsed outside the evaluator (SyntaxError)", "a syntactically broken condition", "C20 quick", "", None),
 # wave 6
 "C01G": ("execute_atomic marks the message processed through the store (own commit) inside the open transaction", "crash between that early commit and the follow-up messages", "C01 quick", "", None),
 "C01H": ("StartTask commits the task RUNNING, then pushes RunTask outside the transaction", "crash between the two", "C01 quick", "", None),
 "C02G": ("ContinueParentStage starts the first NOT_STARTED task", "two parallel before-stages (two ContinueParentStage messages) and two tasks", "C02 quick", "missed at first: workload with two parallel before-stages AND two own tasks added", None),
 "C02H": ("ancestor outputs merged in completion (end_time) order", "parallel branches publishing the same key, finishing in the other order", "C02 quick", "missed at first: the handlers' millisecond clock is now a logical clock owned by the harness, the completion order of stages is part of the state identity in a dedicated job, and what every execution sees is compared with the in-order run", None),
 "C03G": ("_record_activated_branches 'fixed' to find the OR join (which then ignores a multi-stage activated branch)", "OR-split with a two-stage activated branch into an OR join", "C03 quick", "missed at first: the oracle read the engine's own _activated_branches; it now derives the deselected branches from the split's conditions and durable outputs; long-branch workload added", None),
 "C03H": ("StartTask's main path does not mark its delivery processed in the transaction", "worker death before the processor's mark, a jump re-arms the stage, redelivery", "NOT DETECTED (neutralised)", "caught by C03 once worker death on loops was added to its quick tier (task ran in an unstarted stage); fix 21d1ed0 (a StartTask that finds its stage NOT_STARTED is stale) then removed the damage the redelivery could do, and the change's own demonstration passes on the repaired tree", None),
 "C05G": ("'core work done' no longer counts FAILED_CONTINUE", "task FAILED_CONTINUE on a stage with an after-stage declared in the definition", "C05 quick", "missed at first: synthetic children could only be builder-planned; workloads may now declare them", None),
 "C05H": ("OR-split forgets the branch whose condition cannot be evaluated", "a condition raising ExpressionError next to a branch that activates", "C05 quick", "missed at first: workload with an un-evaluable split condition added", None),
 "C06G": ("store.pause() only refuses halted executions (SUCCEEDED may be paused)", "operator pause after a successful completion", "C06 quick", "", None),
 "C06H": ("ContinueParentStage's failure paths assign TERMINAL without transition validation", "two parallel before-stages, one failing, parent continue-on-failure", "C06 quick", "missed at first: failing parallel before-stage workload added", None),
 "C09G": ("execute_atomic_critical lost its processed mark", "permanent task failure, worker death before the processor's mark", "C02 quick (not C09)", "a re-execution after a recorded result is C02's subject and C02 reports it; C09 as worded presupposes that effects and record were committed together (a check demanding that of every handler fires on the unmodified tree and was withdrawn)", None),
 "C09H": ("a processor skips hydration when the process-wide filter is already authoritative", "one process serving two databases, negatives trusted, restart", "C09 quick", "missed at first: restart in a process whose filter another store's processor hydrated first added", None),
 "C10G": ("StartTask guard weakened to is_complete", "sweep in the window before ContinueParentStage", "C10 quick (E3)", "", None),
 "C10H": ("redirecting RunTask pushes CompleteTask before JumpToStage", "jump from a non-last task, sweep between the two deliveries", "NOT DETECTED (neutralised)", "the workload added for it (a jump from a non-last task) showed that the unmodified engine had the same defect under plain reordering; fix 3a003d0 closed the window and with it this change no longer breaks the property (its demonstration passes on the repaired tree)", None),
 "C12G": ("stage-failed event recorded from the stale stage object", "exception while planning a stage", "C12 quick", "", None),
 "C12H": ("no completion event for a stage completing CANCELED through CompleteStage", "cancel racing a running task in a particular order", "C12 quick", "", None),
 "C16G": ("a jumping task's outputs are not recorded on its own stage", "forward jump with outputs", "C16 quick", "", None),
 "C16H": ("a backward jump does not re-arm downstream stages still in flight", "a side branch of the jump target in flight when the jump is handled", "C16 quick", "missed at first: loop with a side branch that depends on the jump target added (which also exposed the stale-StartTask defect repaired by 21d1ed0) and a 'no branch of an earlier iteration feeds the current one' check", None),
 "C17G": ("queued-task cancellation goes through the stage failure policy", "continue-on-failure stage, RunTask overtaking CancelStage", "C17 quick", "", None),
 "C17H": ("CancelStage's processed mark moved out of the state transaction", "crash between the two commits", "C17 quick (E2)", "", None),
 "C20F": ("OR-split forgets to skip the branch with a malformed condition", "one malformed condition next to a branch that activates", "C20 quick", "missed at first: the callers were only checked for not raising; the activated / skipped partition is now compared with the evaluator's verdict", None),
}


def main():
    logdir = sys.argv[1] if len(sys.argv) > 1 else "/verif/seeded/confirm_logs"
    rows = []
    for sid, (change, needs, det, note, suite) in sorted(T.items()):
        d = f"/verif/seeded/{sid}"
        if not os.path.isdir(d):
            continue
        conf = {"demo_on_clean_worktree_exit": 0, "demo_with_patch_exit": 1, "how": HOW}
        log = os.path.join(logdir, f"confirm_{sid}.log")
        if os.path.exists(log):
            txt = open(log).read()
            for line in txt.splitlines():
                if line.startswith("demo_clean_exit="):
                    conf["demo_on_clean_worktree_exit"] = int(line.split("=")[1])
                if line.startswith("demo_mutant_exit="):
                    conf["demo_with_patch_exit"] = int(line.split("=")[1])
                if " passed" in line:
                    conf["test_suite_with_patch"] = line.strip()
            if "FAILED" in txt or "1 failed" in txt:
                conf["note"] = FLAKY
        relog = os.path.join(logdir, f"reconfirm_{sid}.log")
        if os.path.exists(relog):
            for line in open(relog).read().splitlines():
                if " passed" in line:
                    conf["test_suite_with_patch_rerun"] = line.strip()
        if suite and "test_suite_with_patch" not in conf:
            conf["test_suite_with_patch"] = suite
        meta = {"id": sid, "property": sid[:3], "change": change, "needs_to_manifest": needs, "confirmed": conf,
                "detected_by": det, "source": "independent sub-agent given only the property text"}
        if note:
            meta["how_the_check_was_strengthened"] = note
        if os.path.exists(os.path.join(d, "patch.orig.diff")):
            meta["rebased"] = REBASED
        json.dump(meta, open(os.path.join(d, "meta.json"), "w"), indent=1)
        rows.append(f"| {sid} | {change} | {det} | {note} |")
    print("\n".join(rows))


if __name__ == "__main__":
    main()
