#!/usr/bin/env python3
"""Generate MANIFEST.json from the table below (single source of truth)."""
import json
import os

ROOT = os.path.dirname(os.path.dirname(os.path.abspath(__file__)))

E1_NOTE = ("Trusted: SQLite (atomic commit, triggers), CPython, the harness seams of DESIGN.md 2.2 (time abstracted to "
           "ready/delayed + locked/unlocked, circuit breaker closed, heartbeat thread off, max_stage_wait_retries=2 via "
           "its environment variable), and the canonical-state abstraction of 2.4 (audited by bisimulation in C02 thorough). "
           "SQLite backend only.")

CHECKS = {
    "C02": dict(
        engine="E1 sched",
        category="model_checking",
        technique="explicit-state model checking of the real handlers: breadth-first search over database images, every delivery order x bounded lost-ack faults, canonical-state deduplication",
        text="Exhaustive within bounds: every delivery order of pending messages of every listed workload, with up to 1 (quick) / 2 (thorough) deliveries whose worker dies before the processed-mark or before the ack and is redelivered after lock expiry at any later point; oracle = admissible outcome set + 'no execution after a recorded result' + legal durable transitions. Each transition is a real process_one() call, so trace validation against the implementation is total.",
        design_ref="5 (C02), 3 (E1)",
        note=E1_NOTE,
    ),
    "C01": dict(
        engine="E2 crash",
        category="fault_enumeration",
        technique="exhaustive crash-point enumeration: a commit hook on the real sqlite3 connection yields the database image after every durable commit of a run; each image is restarted (fresh worker, lock expiry, recovery sweep, drain) on the real engine",
        text="Every durable commit of the run of every listed workload is a crash point (single crash in quick; every pair of successive crashes incl. a crash inside recovery/drain, and three baseline schedules, in thorough) x 2 ledger cuts (task body ran / did not run) x 2 restart orders. Oracle: outcome in the admissible set, every execution saw the uninterrupted run's path-ordered context, only the in-flight step may run again, nothing stranded.",
        design_ref="5 (C01), 3 (E2)",
        note="Trusted: SQLite atomic commit (crash states are exactly the commit images), CPython, harness seams of DESIGN.md 2.2. Post-crash drain is FIFO; other drain orders are C02/C10's business.",
    ),
    "C03": dict(
        engine="E1 sched",
        category="model_checking",
        technique="explicit-state model checking of the real handlers over every DAG shape up to 4 stages: all delivery orders x injected early/duplicate StartStage, join oracle evaluated on durable audit rows",
        text="For every DAG on <=4 stages up to isomorphism (all succeed / each single stage halting) and every join type workload: all delivery orders with 1 (quick) / 2 (thorough) spurious StartStage messages for any stage at any point (+1 lost ack in thorough). At every durable NOT_STARTED->RUNNING of a stage the published join semantics is evaluated on the pre-state's upstream rows.",
        design_ref="5 (C03)",
        note=E1_NOTE,
    ),
    "C05": dict(
        engine="E1 sched",
        category="model_checking",
        technique="explicit-state model checking of the real handlers; invariant evaluated in every quiescent state (empty queue) reached under every delivery order x bounded faults",
        text="Every quiescent state reachable under all delivery orders (+1 lost ack on the small workloads, + an injected cancel) of the workload family incl. failing branches next to running ones, early-firing joins, synthetic before/after stages, jump loops: workflow final or explicitly waiting, outcome function consistent, nothing running under a finished workflow, DLQ empty.",
        design_ref="5 (C05)",
        note=E1_NOTE,
    ),
    "C06": dict(
        engine="E1 sched (+E2/E3 audit rows)",
        category="model_checking",
        technique="explicit-state model checking of the real handlers with SQL triggers recording every durable status change; each recorded change checked against a pinned copy of the published transition table",
        text="Every durable status change (trigger audit rows, rolled back with their transaction) of every transition of an exhaustive exploration (all orders x lost ack / cancel / recovery sweep / signal) is in the published table; a completed status is left only while handling JumpToStage/RestartStage. The pinned table is diffed against models/status.py so editing the table is itself reported.",
        design_ref="5 (C06)",
        note=E1_NOTE,
    ),
    "C17": dict(
        engine="E1 sched",
        category="model_checking",
        technique="explicit-state model checking of the real handlers: a cancel request injected in every reachable state of every delivery order (the cancel message itself may be overtaken)",
        text="Cancel injected in every reachable state x all delivery orders of the remaining messages (+1 lost ack / early delivery in thorough). Oracle: no task body executes in any transition after the one that committed is_canceled; at quiescence the workflow is final, unfinished stages are CANCELED ('in effect finished' = every task ran to a recorded result, only Complete* bookkeeping pending, may keep the natural status).",
        design_ref="5 (C17)",
        note=E1_NOTE,
    ),
    "C10": dict(
        engine="E1 sched + E2 crash",
        category="model_checking",
        technique="explicit-state model checking of the real handlers with the real recovery sweep injected before every delivery of every order; plus crash-point enumeration comparing one vs. two sweeps",
        text="A recovery sweep (run_recovery) injected in every reachable state of every delivery order, once or twice (also twice in a row), of every workload: outcome must stay within what is reachable without a sweep and no task may execute more often per arming than without a sweep. E2: at every crash image of 6 workloads, restart + one sweep vs. restart + two sweeps give the same outcome and execution counts.",
        design_ref="5 (C10)",
        note=E1_NOTE + " The sweep || handler interleaving half (E3) is part of C04/C11's engine and is not claimed here yet.",
    ),
    "C12": dict(
        engine="E1 sched",
        category="model_checking",
        technique="explicit-state model checking of the real handlers with the event store in the same database image; the replay fold is part of the state key; prefix and snapshot equalities checked exhaustively at every quiescent state",
        text="All delivery orders (+ injected cancel) of 15 workloads covering success, failure, raise, continue-on-failure, skip, poll, transient, jump loops, OR split, synthetic stages: at every quiescent state EventReplayer.rebuild_workflow_state equals the stored workflow status and the status of every stage/task that went through the regular start/complete/fail/skip/cancel steps; for EVERY sequence number as_of replay equals replay of the truncated log; for EVERY snapshot position p and every s>=p snapshot+tail equals full replay.",
        design_ref="5 (C12)",
        note=E1_NOTE + " Stages force-marked by a jump, tasks bulk-cancelled by CancelStage and SKIPPED tasks are outside the claim (property wording / documented design). Wall-clock fields are not compared.",
    ),
    "C13": dict(
        engine="E2 crash + statement fault injector",
        category="fault_enumeration",
        technique="exhaustive crash-point enumeration (image after every commit) plus exhaustive statement-level fault injection through the real connection's execute(), event store in the same database",
        text="Every commit image of 13 workload runs, and an exception (sqlite 'database is locked' / RuntimeError) raised before every single statement of every RunTask/CompleteTask/CompleteStage step (every step in thorough): no completion event without its committed completion, no regularly committed completion without its event, the synchronous subscriber never saw an event that is not durable, sequences unique and increasing, no transaction left open.",
        design_ref="5 (C13)",
        note="Trusted: SQLite atomic commit, CPython; one fault per run; FIFO (+LIFO) baseline.",
    ),
    "C14": dict(
        engine="E1 sched",
        category="model_checking",
        technique="explicit-state model checking of the real handlers over every number of consecutive transient failures 0..max_attempts+2, all delivery orders",
        text="k = 0..12 consecutive TransientErrors x {with, without context_update} x task position 1-3 of 3 with a parallel sibling stage x all delivery orders (+ lost ack / early delivery / sweep in thorough), plus polling tasks: attempt n sees the progress saved by attempt n-1, executions <= max_attempts (10), beyond the limit task/stage/workflow end TERMINAL, below it they succeed.",
        design_ref="5 (C14)",
        note=E1_NOTE + " max_stage_wait_retries is 20 here so the engine's unrelated 1-hour give-up does not race the task's backoff.",
    ),
    "C15": dict(
        engine="E1 sched",
        category="model_checking",
        technique="explicit-state model checking of the real handlers over loop shapes x requested iterations x max-jumps settings, all delivery orders; frontier emptied = termination",
        text="Self loop, 2-4 stage cycles, loop with side branch and fan-in, forward jump over a diamond x requested iterations 0..limit+2 x _max_jumps in {0,1,2,3,default 10} (workflow- and stage-level) x all delivery orders (+lost ack / sweep in thorough): jumps performed = min(requested, limit); at the limit source TERMINAL and workflow failed; loop body runs once per iteration, everything else once (reference re-arm set computed independently); bypassed stages SKIPPED and never run; every exploration reaches a fixpoint.",
        design_ref="5 (C15)",
        note=E1_NOTE,
    ),
    "C16": dict(
        engine="E1 sched + E5 enum",
        category="model_checking",
        technique="explicit-state model checking of the real handlers: every task execution of every delivery order compared with an independent reference merge of the ancestors' durable outputs; exhaustive permutation enumeration for reducers",
        text="Every DAG shape up to 4 stages + chains/diamonds/fans/loops with overlapping scalar and list keys and own-context overrides, all delivery orders: what each task execution saw equals the reference merge (nearest path-ordered ancestor wins, own value wins, lists accumulate, no non-ancestor key) of the outputs durable in the pre-state. Reducers: every permutation of 2-3 (4 in thorough) branch outputs over a value alphabet with duplicates, and end to end through a 3-branch fan under every completion order.",
        design_ref="5 (C16)",
        note=E1_NOTE + " Only path-ordered keys are asserted (the ancestor merge orders unrelated branches by set iteration).",
    ),
}

NOT_YET = {
}

ALL = [f"C{i:02d}" for i in range(1, 21)]


def main():
    checks = []
    for pid, c in CHECKS.items():
        checks.append({
            "property_id": pid,
            "quick_cmd": f"bin/vcheck {pid} --tier quick",
            "thorough_cmd": f"bin/vcheck {pid} --tier thorough",
            "evidence_file": f"/verif/evidence/{pid}.json",
            "replay_cmd_template": f"bin/vcheck {pid} --replay {{path}}",
            "engine": c["engine"],
            "level_claimed": {"category": c["category"], "text": c["text"], "design_ref": c["design_ref"]},
            "level_note": c["note"],
            "technique": c["technique"],
        })
    na = []
    for pid in ALL:
        if pid not in CHECKS:
            na.append({"property_id": pid, "reason": NOT_YET.get(pid, "check not built yet in this session (planned per DESIGN.md section 5; the technique applies)")})
    m = {
        "version": 1,
        "setup_cmd": "bin/setup",
        "hooks": {
            "guard": "STABILIZE_VERIF",
            "enable": "no source hooks: every seam is reached from outside (module globals / constructor arguments, DESIGN.md 2.1); checks import stabilize from /repo/src (editable install), so a fresh interpreter rebuilds from the working tree",
            "baseline_off_cmd": "cd /repo && /venv/bin/python -m pytest -ra -q -p no:cacheprovider --timeout=900 --continue-on-collection-errors",
            "source_commits": [],
            "add_only": True,
        },
        "engines": [
            {"name": "E1 sched", "path": "vlib/e1.py", "serves_properties": sorted(p for p, c in CHECKS.items() if c["engine"].startswith("E1")),
             "kind_free_text": "explicit-state search over the real handlers; state = SQLite image, transition = one real engine call"},
            {"name": "E2 crash", "path": "vlib/e2.py", "serves_properties": sorted(p for p, c in CHECKS.items() if "E2" in c["engine"]),
             "kind_free_text": "crash-point enumerator: image after every durable commit (commit hook on the real connection) x restart orders"},
        ],
        "checks": checks,
        "not_applicable": na,
        "notes": "See DESIGN.md. known_findings.json lists genuine defects (fixed / known).",
    }
    with open(os.path.join(ROOT, "MANIFEST.json"), "w") as f:
        json.dump(m, f, indent=1)
    print(f"wrote MANIFEST.json: {len(checks)} checks, {len(na)} not_applicable")


if __name__ == "__main__":
    main()
