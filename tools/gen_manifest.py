#!/usr/bin/env python3
"""Generate MANIFEST.json from the table below (single source of truth)."""
import json
import os

ROOT = os.path.dirname(os.path.dirname(os.path.abspath(__file__)))

E1_NOTE = ("Trusted: SQLite (atomic commit, triggers), CPython, the harness seams of DESIGN.md 2.2 (time abstracted to "
           "ready/delayed + locked/unlocked, circuit breaker closed, heartbeat thread off, max_stage_wait_retries=2 via "
           "its environment variable), and the canonical-state abstraction of 2.4 (audited by bisimulation in C02 thorough). "
           "SQLite backend only.")

E3_NOTE = ("Trusted: SQLite locking semantics (rollback-journal mode), the CPython GIL (preemption only at SQL statements / commits "
           "of managed threads), the baton scheduler of vlib/e3.py (busy wait modelled as blocking; the 30 s busy timeout itself is not "
           "modelled), sequential FIFO drain after the concurrent section. Threads-of-one-process deployment (shared processor objects, "
           "thread-local connections).")

CHECKS = {
    "C02": dict(
        engine="E1 sched",
        category="model_checking",
        technique="explicit-state model checking of the real handlers: breadth-first search over database images, every delivery order x bounded lost-ack faults, canonical-state deduplication",
        text="Exhaustive within bounds: every delivery order of pending messages of every listed workload, with up to 1 (quick) / 2 (thorough) deliveries whose worker dies right after the claim, before the processed-mark or before the ack and is redelivered after lock expiry at any later point; oracle = admissible outcome set (and, where every task plainly succeeds, SUCCEEDED - the in-order run is not trusted as its own reference); on loop-free confluent workloads every task execution sees a context the in-order run shows, with the completion order of parallel branches (stage end times from the harness's logical millisecond clock) made part of the state identity in three dedicated jobs + 'no execution after a recorded result' + legal durable transitions. Each transition is a real process_one() call, so trace validation against the implementation is total.",
        design_ref="5 (C02), 3 (E1)",
        note=E1_NOTE,
    ),
    "C01": dict(
        engine="E2 crash",
        category="fault_enumeration",
        technique="exhaustive crash-point enumeration: a commit hook on the real sqlite3 connection yields the database image after every durable commit of a run; each image is restarted (fresh worker, lock expiry, recovery sweep, drain) on the real engine",
        text="Every durable commit of the run of every listed workload is a crash point (single crash in quick; every pair of successive crashes incl. a crash inside recovery/drain, and three baseline schedules, in thorough) x 2 ledger cuts (task body ran / did not run) x 2 restart orders. Oracle: outcome in the admissible set, every execution saw the uninterrupted run's path-ordered context, only the in-flight step may run again, nothing stranded.",
        design_ref="5 (C01), 3 (E2)",
        note="Trusted: SQLite atomic commit (crash states are exactly the commit images), CPython, harness seams of DESIGN.md 2.2. Post-crash drain is FIFO; other drain orders are C02/C10's business.",
    ),
    "C03": dict(
        engine="E1 sched",
        category="model_checking",
        technique="explicit-state model checking of the real handlers over every DAG shape up to 4 stages: all delivery orders x injected early/duplicate StartStage, join oracle evaluated on durable audit rows",
        text="For every DAG on <=4 stages up to isomorphism (all succeed / each single stage halting), every join type workload, loops with one and two jump targets, and six workloads run next to an older bystander workflow that uses the same ref_ids with other dependencies, OR-splits with a multi-stage activated branch / an un-evaluable condition (the OR-join oracle derives the deselected branches from the split's own conditions and durable outputs, not from the engine's bookkeeping), loops under one worker death: all delivery orders with 1 (quick) / 2 (thorough) spurious StartStage messages for any stage at any point (+1 lost ack in thorough). At every durable NOT_STARTED->RUNNING of a stage the published join semantics is evaluated on the pre-state's upstream rows.",
        design_ref="5 (C03)",
        note=E1_NOTE,
    ),
    "C05": dict(
        engine="E1 sched",
        category="model_checking",
        technique="explicit-state model checking of the real handlers; invariant evaluated in every quiescent state (empty queue) reached under every delivery order x bounded faults",
        text="Every quiescent state reachable under all delivery orders (+1 worker death on the small workloads, + an injected cancel, + operator pause/resume; + ONE transient database error before any statement of any delivery of the in-order run of 12 workloads) of the workload family incl. failing branches next to running ones, early-firing joins, synthetic before/after stages, jump loops (also from a non-last task), a builder that raises while planning, after-stages declared in the definition, two parallel before-stages (failing / with two parent tasks), a cancel region cancelled at any moment, a milestone-gated stage: workflow final or explicitly waiting, outcome function consistent, nothing running under a finished workflow, no dead-lettered message of an unfinished workflow. E3: two workflows of one pipeline config with max_concurrent_executions=1, StartWorkflow(W2) racing CompleteWorkflow(W1)+StartWaitingWorkflows under <=2/<=3 preemptions: no workflow left BUFFERED with a free slot.",
        design_ref="5 (C05)",
        note=E1_NOTE,
    ),
    "C06": dict(
        engine="E1 sched (+E2/E3 audit rows)",
        category="model_checking",
        technique="explicit-state model checking of the real handlers with SQL triggers recording every durable status change; each recorded change checked against a pinned copy of the published transition table",
        text="Every durable status change (trigger audit rows, rolled back with their transaction) of every transition of an exhaustive exploration (all orders x worker death / cancel / recovery sweep / signal / operator pause+resume+cancel / operator restart) is in the published table; E3: CancelWorkflow racing CompleteWorkflow / StartWorkflow / CompleteStage (the workflow row has no version column), racing StartStage / CompleteStage / CancelStage pairs; a completed status is left only while handling JumpToStage/RestartStage. The pinned table is diffed against models/status.py so editing the table is itself reported.",
        design_ref="5 (C06)",
        note=E1_NOTE,
    ),
    "C17": dict(
        engine="E1 sched",
        category="model_checking",
        technique="explicit-state model checking of the real handlers: a cancel request injected in every reachable state of every delivery order (the cancel message itself may be overtaken)",
        text="Cancel injected in every reachable state x all delivery orders of the remaining messages (+1 worker death / early delivery in thorough); E2: cancel requested before every step of the in-order run x a crash after every commit made from then on, restart, recovery, drain. Oracle: no task body executes in any transition after the one that committed is_canceled or the CancelWorkflow's processed record; at quiescence the workflow is final, unfinished stages are CANCELED ('in effect finished' = every task ran to a recorded result, only Complete* bookkeeping pending, may keep the natural status).",
        design_ref="5 (C17)",
        note=E1_NOTE,
    ),
    "C10": dict(
        engine="E1 sched + E2 crash + E3 ilv",
        category="model_checking",
        technique="explicit-state model checking of the real handlers with the real recovery sweep injected before every delivery of every order; plus crash-point enumeration comparing one vs. two sweeps",
        text="A recovery sweep (run_recovery) injected in every reachable state of every delivery order, once or twice (also twice in a row), of every workload (incl. task-less gate stages, two-task stages with builder-planned before-stages, jumps from a non-last task): outcome must stay within what is reachable without a sweep and no task may execute more often per arming than without a sweep. E2: at every crash image of 6 workloads, restart + one sweep vs. restart + two sweeps give the same outcome and execution counts. E3: a real run_recovery() thread racing one handler (RunTask, StartTask, CompleteTask, StartStage, CompleteStage, polling RunTask, ContinueParentStage) at statement level under <=2 / <=3 preemptions.",
        design_ref="5 (C10)",
        note=E1_NOTE + "",
    ),
    "C12": dict(
        engine="E1 sched",
        category="model_checking",
        technique="explicit-state model checking of the real handlers with the event store in the same database image; the replay fold is part of the state key; prefix and snapshot equalities checked exhaustively at every quiescent state",
        text="All delivery orders (+ injected cancel) of 15 workloads covering success, failure, raise, continue-on-failure, skip, poll, transient, jump loops, OR split, synthetic stages: at every quiescent state EventReplayer.rebuild_workflow_state equals the stored workflow status and the status of every stage/task that went through the regular start/complete/fail/skip/cancel steps; for EVERY sequence number as_of replay equals replay of the truncated log; for EVERY snapshot position p and every s>=p snapshot+tail equals full replay.",
        design_ref="5 (C12)",
        note=E1_NOTE + " Stages force-marked by a jump, tasks bulk-cancelled by CancelStage and SKIPPED tasks are outside the claim (property wording / documented design). Wall-clock fields are not compared.",
    ),
    "C13": dict(
        engine="E2 crash + statement fault injector",
        category="fault_enumeration",
        technique="exhaustive crash-point enumeration (image after every commit) plus exhaustive statement-level fault injection through the real connection's execute(), event store in the same database",
        text="Every commit image of 13 workload runs, and an exception (sqlite 'database is locked' / RuntimeError) raised before every single statement - and a failing COMMIT at every commit - of every RunTask/CompleteTask/CompleteStage step (every step in thorough); the instant just before every commit is a crash point for the subscriber log too; first-of / quorum joins included; three runs with a second, REACTING subscriber that records an event of its own on every stage completion: no completion event without its committed completion, no regularly committed completion without its event, the synchronous subscriber never saw an event that is not durable, sequences unique and increasing, no transaction left open.",
        design_ref="5 (C13)",
        note="Trusted: SQLite atomic commit, CPython; one fault per run; FIFO (+LIFO) baseline.",
    ),
    "C14": dict(
        engine="E1 sched",
        category="model_checking",
        technique="explicit-state model checking of the real handlers over every number of consecutive transient failures 0..max_attempts+2, all delivery orders",
        text="k = 0..12 consecutive TransientErrors x {with, without context_update} x task position 1-3 of 3 with a parallel sibling stage x all delivery orders (+ lost ack / early delivery / sweep in thorough), plus polling tasks, a worker death at any point of any delivery of a k=10 run, and (E2) every commit image of the polling / retrying deliveries (the saved progress is durable as soon as the delivery carries its processed record, and the next attempt after restart sees it): attempt n sees the progress saved by attempt n-1, executions <= max_attempts (10), beyond the limit task/stage/workflow end TERMINAL, below it they succeed.",
        design_ref="5 (C14)",
        note=E1_NOTE + " max_stage_wait_retries is 20 here so the engine's unrelated 1-hour give-up does not race the task's backoff.",
    ),
    "C15": dict(
        engine="E1 sched",
        category="model_checking",
        technique="explicit-state model checking of the real handlers over loop shapes x requested iterations x max-jumps settings, all delivery orders; frontier emptied = termination",
        text="Self loop, 2-4 stage cycles, loop with side branch and fan-in, forward jump over a diamond, and EVERY loop body that is a single-root/single-sink DAG on 3-5 stages (all 110 up to isomorphism, both declaration orders; 6 stages = 1960 bodies in thorough, VERIF_SEED selecting which thirty-second) x requested iterations 0..limit+2 x _max_jumps in {0,1,2,3,default 10} (workflow- and stage-level) x all delivery orders (+lost ack / sweep in thorough): jumps performed = min(requested, limit); at the limit source TERMINAL and workflow failed; loop body runs once per iteration, everything else once (reference re-arm set computed independently); bypassed stages SKIPPED and never run; every exploration reaches a fixpoint.",
        design_ref="5 (C15)",
        note=E1_NOTE,
    ),
    "C16": dict(
        engine="E1 sched + E5 enum",
        category="model_checking",
        technique="explicit-state model checking of the real handlers: every task execution of every delivery order compared with an independent reference merge of the ancestors' durable outputs; exhaustive permutation enumeration for reducers",
        text="Every DAG shape up to 4 stages + chains/diamonds/fans/loops with overlapping scalar and list keys and own-context overrides, all delivery orders: what each task execution saw equals the reference merge (nearest path-ordered ancestor wins, own value wins, lists accumulate, no non-ancestor key) of an independent model of what every stage published in its current arming (built from the execution ledger, reset on re-arm; jump tasks that publish extra keys only in abandoned iterations; mixed-type own values); the durable outputs of every finished stage equal that model; every loop body on 3-4 stages and a loop with a side branch depending on the jump target: nothing a stage inherits was produced before the latest run of its producer's own upstream. Reducers: every permutation of 2-3 (4 in thorough) branch outputs over an alphabet with duplicates, falsy and negative values, missing keys, scalars / lists, and end to end through a 3-branch fan under every completion order.",
        design_ref="5 (C16)",
        note=E1_NOTE + " Only path-ordered keys are asserted (the ancestor merge orders unrelated branches by set iteration).",
    ),
    "C04": dict(
        engine="E3 ilv",
        category="model_checking",
        technique="stateless model checking of real threads: every interleaving of 2-3 workers at SQL-statement / commit granularity under a preemption bound (iterative context bounding), on a file database with SQLite lock waits modelled as blocking",
        text="Two (three) real worker threads each running the real process_one() on a prepared state where several StartStage(D) are pending or both upstream CompleteStage are pending; AND, first-of, quorum joins and builder-made tasks. Every schedule with <=2 preemptions (quick; <=1 for the rarer scenarios and 3 workers) / <=3 (thorough) is executed; afterwards the queue is drained and: exactly one durable NOT_STARTED->RUNNING of D, each task of D ran once, one StartTask insert, one downstream StartStage insert, outcome equals the sequential one. CAS losses are counted so collisions are visible.",
        design_ref="5 (C04), 3 (E3)",
        note=E3_NOTE,
    ),
    "C07": dict(
        engine="E3 ilv",
        category="model_checking",
        technique="stateless model checking of real threads at SQL-statement / commit granularity under a preemption bound: 2-3 read-modify-write writers through the public store API and engine-level handler pairs",
        text="Writers: 2 writers (plain, transactional, mixed, with and without retry) with <=2 (quick) / <=3 (thorough) preemptions, 3 writers with <=1/<=2: successful saves read pairwise distinct versions, the final row holds every successful writer's change and nothing of a failed one, version = number of successful saves, retries always converge. All pairs: at every state of the in-order and the newest-first run of 8 (13 in thorough) workloads, every pair of messages ready together is handed to two workers (<=1 preemption; <=2 on four workloads in thorough): outcome one that a sequential order produces, no task run more often, every stage started at most once per arming, legal transitions. Engine pairs: persistent SignalStage vs RunTask that suspends / vs StartStage claim / vs StartTask; two CompleteStage updating one quorum join; CancelStage vs CompleteTask: outcome must be one a sequential order can produce and both effects present.",
        design_ref="5 (C07)",
        note=E3_NOTE,
    ),
    "C08": dict(
        engine="E4 ops + E3 ilv + E2 crash",
        category="model_checking",
        technique="explicit-state search over operation sequences of the real SqliteQueue against a dict reference model; stateless interleaving exploration of concurrent pollers; crash-image enumeration inside DLQ moves",
        text="E4: every sequence of push / push-in-transaction / poll / ack / reschedule / extend / expire / advance / move-to-DLQ / sweep / replay up to depth 9 (quick) / 12 (thorough), max_attempts=2, deduplicated on the real queue's canonical state; after every operation the real tables equal the model, poll returns only eligible unheld messages and never misses one, every pushed message is in exactly one place, replay returns the payload unchanged. E3: 2-3 real pollers x 2-3 messages under <=3 preemptions: no double claim, nothing lost. E2: the image after every commit inside move_to_dlq / check_and_move_expired / replay_dlq / the processor's failing-handler path conserves every message; a poison message is handled exactly max_attempts times and parked.",
        design_ref="5 (C08)",
        note=E3_NOTE + " E4 trusts the dict model in checks/C08.py.",
    ),
    "C09": dict(
        engine="E1 sched + E4 ops",
        category="model_checking",
        technique="explicit-state model checking of the real handlers with lost acks, worker restarts and filter rotation at any point, both negative-cache settings; exhaustive operation sequences on the real bloom filter",
        text="All delivery orders x <=1 lost ack (quick; <=2 thorough) x <=1 restart after a long downtime (processed records aged by days) x <=1 forced filter rotation (with and without re-hydration), dedup_trust_negative_cache off and on (filter contents tracked in the state): whenever the delivered row id is already in processed_messages no handler is invoked and no task executes (>10k such redeliveries per quick run). Filter: every sequence of mark/hydrate/reset up to length 4 (5) over 6 ids and capacities 1..8: no false negative, authoritative only between hydrate and reset.",
        design_ref="5 (C09)",
        note=E1_NOTE,
    ),
    "C11": dict(
        engine="E3 ilv + E1 sched",
        category="model_checking",
        technique="stateless model checking of real threads (sibling StartStage handlers, optionally a retention sweep thread) under a preemption bound with an invariant evaluated after every commit; explicit-state search over all delivery orders",
        text="E3: StartStage(X)||StartStage(Y)[||StartStage(Z)][||claim retention sweep] for mutex and deferred-choice groups, <=2 preemptions for 2 threads, <=1 for 3 (quick) / <=3, <=2 (thorough): after EVERY commit at most one RUNNING stage per mutex key; after the drain every mutex member ran and never overlapped, exactly one choice member ever started, the others are CANCELED. E1: the same workloads under all delivery orders with the retention sweep (and a lost ack in thorough) at any point.",
        design_ref="5 (C11)",
        note=E3_NOTE + " max_stage_wait_retries=20 so the engine's 1-hour give-up does not race the mutex waiter.",
    ),
    "C18": dict(
        engine="E1 sched + E2 crash + E3 ilv",
        category="model_checking",
        technique="explicit-state model checking of the real handlers with a persistent or transient signal injected in every reachable state; crash-point enumeration of suspend / resume runs",
        text="Signal (persistent / transient) sent in every reachable state of A->gate->Z under all delivery orders with <=1 lost ack (quick; <=2 and a recovery sweep in thorough): without a signal the gate is durably SUSPENDED; a persistent signal is consumed exactly once, the suspending task runs suspend-then-resumed with the payload, buffer empty, workflow SUCCEEDED; a transient signal resumes iff the gate was durably SUSPENDED when it was handled; a gate needing 2 / 3 signals with as many distinct persistent signals sent at any moments consumes each exactly once; a gate with a second task behind it under a recovery sweep at any moment (nothing runs past the gate unsignalled); a gate reached by a forward jump keeps its buffered signal. E2: every commit image of three runs (signal before start / with RunTask / after suspend) x 2 restart orders (no consumed signal may be left in the buffer). E3: persistent SignalStage racing RunTask-that-suspends / StartStage claim / StartTask at statement level, <=2 (quick) / <=3 (thorough) preemptions.",
        design_ref="5 (C18)",
        note=E1_NOTE,
    ),
    "C19": dict(
        engine="E5 enum",
        category="exploration",
        technique="exhaustive small-scope enumeration of stage records and message instances through the real store and both queue serialisers, compared field by field",
        text="Every enum member and every optional field over {None,'',value,unicode}, 0-3 tasks, 28 JSON values in context/outputs (empty, nested, unicode incl. astral, quotes, control characters, 2^63, floats, 64 KB, deep nesting, '_'-prefixed keys at every depth), one field varied at a time (pairs in thorough): store() -> retrieve() and retrieve_stage() field-by-field equal, task order kept, six read-modify-write rounds (context / outputs / status / task) through the four save paths (store and transaction, with and without expected_phase) leave untouched fields and the sibling stage unchanged. Every message class x every field domain through queue.push and AtomicTransaction.push_message: same type and fields after poll, both serialisers write the same payload.",
        design_ref="5 (C19)",
        note="Small-scope hypothesis over the listed alphabets; only JSON-representable values are claimed; SQLite backend.",
    ),
    "C20": dict(
        engine="E5 enum",
        category="exploration",
        technique="exhaustive small-scope enumeration of stage graphs against an independent DFS reference, and of grammar-generated / hostile condition expressions under a family of contexts",
        text="All lists of <=3 stages over refs {a,b,c} (duplicates allowed) with requisites any subset of {a,b,c,zz} (4 stages with <=1 requisite in thorough): Workflow.create accepts exactly the graphs the reference accepts, raises only its own error types, topological_sort lists every stage after its requisites. ~8k expressions covering every supported and unsupported AST node kind to two operator levels plus ~90 malformed / hostile strings (incl. every recursive construct nested 990 / 1200 / 5000 deep) x 18 contexts: a value or ExpressionError, never another exception, never a call, never attribute access on a foreign object; _should_skip and _apply_split_logic never raise, and an OR-split decides every branch exactly once, the branch with condition e activated iff e evaluates truthy.",
        design_ref="5 (C20)",
        note="Small-scope hypothesis; CPython 3.12 ast.",
    ),
}

NOT_YET = {
}

ALL = [f"C{i:02d}" for i in range(1, 21)]


def main():
    checks = []
    for pid, c in CHECKS.items():
        checks.append({
            "property_id": pid,
            "quick_cmd": f"bin/vcheck {pid} --tier quick",
            "thorough_cmd": f"bin/vcheck {pid} --tier thorough",
            "evidence_file": f"/verif/evidence/{pid}.json",
            "replay_cmd_template": f"bin/vcheck {pid} --replay {{path}}",
            "engine": c["engine"],
            "level_claimed": {"category": c["category"], "text": c["text"], "design_ref": c["design_ref"]},
            "level_note": c["note"],
            "technique": c["technique"],
        })
    na = []
    for pid in ALL:
        if pid not in CHECKS:
            na.append({"property_id": pid, "reason": NOT_YET.get(pid, "check not built yet in this session (planned per DESIGN.md section 5; the technique applies)")})
    m = {
        "version": 1,
        "setup_cmd": "bin/setup",
        "hooks": {
            "guard": "STABILIZE_VERIF",
            "enable": "no source hooks: every seam is reached from outside (module globals / constructor arguments, DESIGN.md 2.1); checks import stabilize from /repo/src (editable install), so a fresh interpreter rebuilds from the working tree",
            "baseline_off_cmd": "cd /repo && /venv/bin/python -m pytest -ra -q -p no:cacheprovider --timeout=900 --continue-on-collection-errors",
            "source_commits": [],
            "add_only": True,
        },
        "engines": [
            {"name": "E1 sched", "path": "vlib/e1.py", "serves_properties": sorted(p for p, c in CHECKS.items() if c["engine"].startswith("E1")),
             "kind_free_text": "explicit-state search over the real handlers; state = SQLite image, transition = one real engine call"},
            {"name": "E3 ilv", "path": "vlib/e3.py", "serves_properties": sorted(p for p, c in CHECKS.items() if "E3" in c["engine"]),
             "kind_free_text": "stateless interleaving explorer: real threads, baton scheduler at execute()/commit(), iterative context bounding, SQLite lock waits as blocking"},
            {"name": "E4 ops", "path": "checks/C08.py, checks/C09.py", "serves_properties": sorted(p for p, c in CHECKS.items() if "E4" in c["engine"]),
             "kind_free_text": "operation-sequence search of a real object against a plain-Python reference model"},
            {"name": "E5 enum", "path": "checks/C19.py, checks/C20.py, checks/C16.py", "serves_properties": sorted(p for p, c in CHECKS.items() if "E5" in c["engine"]),
             "kind_free_text": "exhaustive small-scope input enumeration"},
            {"name": "E2 crash", "path": "vlib/e2.py", "serves_properties": sorted(p for p, c in CHECKS.items() if "E2" in c["engine"]),
             "kind_free_text": "crash-point enumerator: image after every durable commit (commit hook on the real connection) x restart orders"},
        ],
        "checks": checks,
        "not_applicable": na,
        "notes": "See DESIGN.md. known_findings.json lists genuine defects (fixed / known).",
    }
    with open(os.path.join(ROOT, "MANIFEST.json"), "w") as f:
        json.dump(m, f, indent=1)
    print(f"wrote MANIFEST.json: {len(checks)} checks, {len(na)} not_applicable")


if __name__ == "__main__":
    main()
