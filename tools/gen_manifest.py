#!/usr/bin/env python3
"""Generate MANIFEST.json from the table below (single source of truth)."""
import json
import os

ROOT = os.path.dirname(os.path.dirname(os.path.abspath(__file__)))

E1_NOTE = ("Trusted: SQLite (atomic commit, triggers), CPython, the harness seams of DESIGN.md 2.2 (time abstracted to "
           "ready/delayed + locked/unlocked, circuit breaker closed, heartbeat thread off, max_stage_wait_retries=2 via "
           "its environment variable), and the canonical-state abstraction of 2.4 (audited by bisimulation in C02 thorough). "
           "SQLite backend only.")

CHECKS = {
    "C02": dict(
        engine="E1 sched",
        category="model_checking",
        technique="explicit-state model checking of the real handlers: breadth-first search over database images, every delivery order x bounded lost-ack faults, canonical-state deduplication",
        text="Exhaustive within bounds: every delivery order of pending messages of every listed workload, with up to 1 (quick) / 2 (thorough) deliveries whose worker dies before the processed-mark or before the ack and is redelivered after lock expiry at any later point; oracle = admissible outcome set + 'no execution after a recorded result' + legal durable transitions. Each transition is a real process_one() call, so trace validation against the implementation is total.",
        design_ref="5 (C02), 3 (E1)",
        note=E1_NOTE,
    ),
}

NOT_YET = {
}

ALL = [f"C{i:02d}" for i in range(1, 21)]


def main():
    checks = []
    for pid, c in CHECKS.items():
        checks.append({
            "property_id": pid,
            "quick_cmd": f"bin/vcheck {pid} --tier quick",
            "thorough_cmd": f"bin/vcheck {pid} --tier thorough",
            "evidence_file": f"/verif/evidence/{pid}.json",
            "replay_cmd_template": f"bin/vcheck {pid} --replay {{path}}",
            "engine": c["engine"],
            "level_claimed": {"category": c["category"], "text": c["text"], "design_ref": c["design_ref"]},
            "level_note": c["note"],
            "technique": c["technique"],
        })
    na = []
    for pid in ALL:
        if pid not in CHECKS:
            na.append({"property_id": pid, "reason": NOT_YET.get(pid, "check not built yet in this session (planned per DESIGN.md section 5; the technique applies)")})
    m = {
        "version": 1,
        "setup_cmd": "bin/setup",
        "hooks": {
            "guard": "STABILIZE_VERIF",
            "enable": "no source hooks: every seam is reached from outside (module globals / constructor arguments, DESIGN.md 2.1); checks import stabilize from /repo/src (editable install), so a fresh interpreter rebuilds from the working tree",
            "baseline_off_cmd": "cd /repo && /venv/bin/python -m pytest -ra -q -p no:cacheprovider --timeout=900 --continue-on-collection-errors",
            "source_commits": [],
            "add_only": True,
        },
        "engines": [
            {"name": "E1 sched", "path": "vlib/e1.py", "serves_properties": sorted(p for p, c in CHECKS.items() if c["engine"].startswith("E1")),
             "kind_free_text": "explicit-state search over the real handlers; state = SQLite image, transition = one real engine call"},
        ],
        "checks": checks,
        "not_applicable": na,
        "notes": "See DESIGN.md. known_findings.json lists genuine defects (fixed / known).",
    }
    with open(os.path.join(ROOT, "MANIFEST.json"), "w") as f:
        json.dump(m, f, indent=1)
    print(f"wrote MANIFEST.json: {len(checks)} checks, {len(na)} not_applicable")


if __name__ == "__main__":
    main()
