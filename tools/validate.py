#!/opt/veriftools/pyvenv/bin/python
"""Validate MANIFEST.json and every evidence/<id>.json against the published schemas."""
import glob
import json
import sys

import jsonschema

bad = 0
m = json.load(open("/verif/MANIFEST.json"))
jsonschema.validate(m, json.load(open("/root/.vp/MANIFEST.schema.json")))
es = json.load(open("/root/.vp/EVIDENCE.schema.json"))
for f in sorted(glob.glob("/verif/evidence/C*.json")):
    try:
        jsonschema.validate(json.load(open(f)), es)
    except Exception as e:  # noqa: BLE001
        bad += 1
        print("INVALID", f, str(e)[:200])
print("manifest ok;", len(glob.glob("/verif/evidence/C*.json")), "evidence files,", bad, "invalid")
sys.exit(1 if bad else 0)
