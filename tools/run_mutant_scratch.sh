#!/bin/bash
# usage: tools/run_mutant_scratch.sh <seeded-id> <check> [<check>...]
# Like run_mutant.sh but leaves /repo alone: the patch is applied to the scratch worktree /tmp/mut (created with
# `git -C /repo worktree add --detach /tmp/mut HEAD`) and the checks import stabilize from there (PYTHONPATH).
id=$1; shift
cd /verif
wt=${MUT_WT:-/tmp/mut}
git -C $wt checkout -q --detach $(git -C /repo rev-parse HEAD) 2>/dev/null
git -C $wt checkout -q -- . ; git -C $wt apply /verif/seeded/$id/patch.diff || exit 3
trap "git -C $wt checkout -q -- ." EXIT
for c in "$@"; do
  tier=${TIER:-quick}
  out=$(PYTHONPATH=$wt/src VERIF_EVIDENCE_DIR=/dev/shm/mut_evidence bin/vcheck $c --tier $tier 2>&1); rc=$?
  nv=$(echo "$out" | grep -c "^VIOLATION")
  echo "MUTANT $id check=$c tier=$tier exit=$rc violations=$nv"
  echo "$out" | grep -A1 "^VIOLATION" | head -8 | cut -c1-330
  echo "$out" | grep "HARNESS-ERROR" | head -3 | cut -c1-300
done
