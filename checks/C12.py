"""C12 - replaying the event log reproduces the stored state (E1 with the event store in the same image)."""

from __future__ import annotations

from vlib.e1 import Explorer, Monitor
from vlib.e1jobs import aggregate_e1, make_workload, result_from, wl, world
from vlib.monitors import handling
from vlib.world import dumps, pack, unpack

PROPERTY = "C12"

STAGE_WRITERS = {"StartStage", "CompleteStage", "SkipStage", "CancelStage"}
TASK_WRITERS = {"StartTask", "CompleteTask"}


def replayer(w, snapshots=False):
    from stabilize.events import EventReplayer, SnapshotStore

    return EventReplayer(w.event_store, SnapshotStore(w.event_store) if snapshots else None)


def scrub_state(view, st):
    """Replay result with ids replaced by labels, statuses only."""
    return {
        "wf": st.get("status"),
        "stages": {view.labels.get(k, k): v.get("status") for k, v in st.get("stages", {}).items()},
        "tasks": {view.labels.get(k, k): v.get("status") for k, v in st.get("tasks", {}).items()},
    }


def comparable(st):
    """Full replay result minus wall-clock fields, for prefix / snapshot equality."""
    def strip(d):
        return {k: v for k, v in d.items() if k not in ("start_time", "end_time")}
    return dumps({"status": st.get("status"), "application": st.get("application"), "name": st.get("name"),
                  "context": st.get("context"), "stages": {k: strip(v) for k, v in st.get("stages", {}).items()},
                  "tasks": {k: strip(v) for k, v in st.get("tasks", {}).items()}})


class ReplayMonitor(Monitor):
    name = "replay"

    def __init__(self, deep=True):
        self.deep = deep
        self.prefix_checks = 0
        self.snapshot_checks = 0

    def init(self, ex):
        return {"last": {}, "fold": None}

    def step(self, ex, tr, ms):
        last = dict(ms["last"])
        h = handling(tr)
        for (_s, tbl, ident, old, new) in tr.audit:
            if tbl in ("S", "T") and old is not None:
                last[tr.post.labels.get(ident, ident)] = [h, new]
        st = replayer(ex.w).rebuild_workflow_state(tr.post.exec_id)
        return {"last": last, "fold": scrub_state(tr.post, st)}, []

    def final(self, ex, view, ms, state):
        v = []
        w = ex.w
        w.load(unpack(state.blob))
        full = replayer(w).rebuild_workflow_state(view.exec_id)
        rs = scrub_state(view, full)
        if rs["wf"] != view.wf["status"]:
            v.append({"kind": "replayed-workflow-status-differs", "replayed": rs["wf"], "stored": view.wf["status"],
                      "sig": f"wf-status:{rs['wf']}!={view.wf['status']}"})
        last = ms["last"]
        for lab, s in view.stages.items():
            if s["status"] == "NOT_STARTED":
                continue
            lw = last.get(lab)
            if lw is None or lw[0] not in STAGE_WRITERS:
                continue  # force-marked by a jump / restart / other path: outside the claim
            if rs["stages"].get(lab) != s["status"]:
                v.append({"kind": "replayed-stage-status-differs", "stage": lab, "replayed": rs["stages"].get(lab),
                          "stored": s["status"], "last_writer": lw[0],
                          "sig": f"stage-status:{rs['stages'].get(lab)}!={s['status']}@{lw[0]}"})
            for t in s["tasks"]:
                tl = f"{lab}#{t[0]}"
                tw = last.get(tl)
                if t[1] in ("NOT_STARTED", "SKIPPED") or tw is None or tw[0] not in TASK_WRITERS:
                    continue
                if rs["tasks"].get(tl) != t[1]:
                    v.append({"kind": "replayed-task-status-differs", "task": tl, "replayed": rs["tasks"].get(tl),
                              "stored": t[1], "last_writer": tw[0],
                              "sig": f"task-status:{rs['tasks'].get(tl)}!={t[1]}@{tw[0]}"})
        if self.deep:
            v.extend(self.prefixes_and_snapshots(ex, view, state, full))
        return v

    def prefixes_and_snapshots(self, ex, view, state, full):
        from stabilize.events import SnapshotStore

        v = []
        w = ex.w
        c = w.conn
        seqs = [r[0] for r in c.execute("SELECT sequence FROM events WHERE workflow_id=? ORDER BY sequence", (view.exec_id,))]
        image = unpack(state.blob)
        full_c = comparable(full)
        by_prefix = {}
        for s in seqs:
            w.load(image)
            asof = replayer(w).rebuild_workflow_state(view.exec_id, as_of_sequence=s)
            c = w.conn
            c.execute("DELETE FROM events WHERE sequence > ?", (s,))
            c.commit()
            cut = replayer(w).rebuild_workflow_state(view.exec_id)
            by_prefix[s] = cut
            self.prefix_checks += 1
            if comparable(asof) != comparable(cut):
                v.append({"kind": "as-of-sequence-differs-from-prefix-replay", "sequence": s, "sig": "as-of-prefix"})
                break
        # snapshot at every position p, then full replay and every as_of >= p
        for i, p in enumerate(seqs):
            w.load(image)
            snap_state = by_prefix[p]
            SnapshotStore(w.event_store).create_workflow_snapshot(snap_state, view.exec_id, version=1, sequence=p)
            r = replayer(w, snapshots=True)
            got = r.rebuild_workflow_state(view.exec_id)
            self.snapshot_checks += 1
            if comparable(got) != full_c:
                v.append({"kind": "snapshot-plus-tail-differs-from-full-replay", "snapshot_at": p, "position": i,
                          "sig": "snapshot-full"})
                break
            bad = False
            for s in seqs[i:]:
                got_s = r.rebuild_workflow_state(view.exec_id, as_of_sequence=s)
                self.snapshot_checks += 1
                if comparable(got_s) != comparable(by_prefix[s]):
                    v.append({"kind": "snapshot-as-of-differs", "snapshot_at": p, "as_of": s, "sig": "snapshot-as-of"})
                    bad = True
                    break
            if bad:
                break
        w.load(image)
        return v


WLS = [wl("chain3"), wl("diamond"), wl("multitask"), wl("fail_mid"), wl("raise_mid"), wl("continue_on_fail"),
       wl("skip_stage"), wl("poll", 1), wl("transient", 1, True), wl("jump_cycle", 2, 2), wl("jump_self", 1),
       wl("or_split_join"), wl("synthetic"), wl("synthetic_raise"), wl("fail_branch"), wl("jump_forward_diamond", 1)]
CANCEL = [wl("diamond"), wl("multitask"), wl("fail_mid"), wl("continue_on_fail"), wl("skip_stage")]


def jobs(tier, seed):
    js = []
    for spec in WLS:
        js.append({"label": f"{spec[0]}{spec[1]}|all-orders", "wl": spec, "budget": {}})
    for spec in CANCEL:
        js.append({"label": f"{spec[0]}{spec[1]}|cancel1", "wl": spec, "budget": {"cancel": 1}, "deep": False})
    if tier == "thorough":
        for spec in WLS + [wl("fan3"), wl("diamond_multitask"), wl("first_of"), wl("quorum")]:
            js.append({"label": f"{spec[0]}{spec[1]}|noack1", "wl": spec, "budget": {"noack": 1}, "max_states": 300000,
                       "deep": False})
    return js


def build(job):
    w = world(events=True)
    workload = make_workload(job["wl"])
    mon = ReplayMonitor(deep=job.get("deep", True))
    ex = Explorer(w, workload, [mon], job.get("budget"), max_states=job.get("max_states", 150000),
                  time_cap=job.get("time_cap", 600))
    ex._replay_mon = mon
    return ex


def run_job(job):
    ex = build(job).run()
    res = result_from(ex, "e1", {"prefix_checks": ex._replay_mon.prefix_checks,
                                 "snapshot_checks": ex._replay_mon.snapshot_checks})
    res["job_spec"] = job
    return res


def aggregate(results, tier, seed, pre):
    good = [r for r in results if "harness_error" not in r]
    return aggregate_e1(results, tier, seed, pre, extra_cov={
        "as_of_prefix_checks": sum(r.get("prefix_checks", 0) for r in good),
        "snapshot_position_checks": sum(r.get("snapshot_checks", 0) for r in good)})


def replay(payload):
    ex = build(payload["job"])
    out, viols, st = ex.replay(payload["violation"]["trace"])
    return {"steps": out, "violations": viols, "final_outcome": st.view.outcome()}
