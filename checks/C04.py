"""C04 - a stage starts exactly once even when workers race (E3)."""

from __future__ import annotations

import json

from vlib import workloads as W
from vlib.e1jobs import make_workload, wl
from vlib.e3 import DrainMemo, FileWorld, IlvExplorer, cleanup_dir, prepare
from vlib.monitors import check_audit_rows
from vlib.world import dumps

PROPERTY = "C04"


def diamond_e():
    return W.Workload("diamond_e", [W.St("A"), W.St("B", ("A",)), W.St("C", ("A",)), W.St("D", ("B", "C")), W.St("E", ("D",))])


def join_e(join, threshold=0, n=2):
    ups = ["B", "C", "F"][:n]
    st = [W.St("A")] + [W.St(u, ("A",)) for u in ups]
    st += [W.St("D", tuple(ups), join=join, threshold=threshold), W.St("E", ("D",))]
    return W.Workload(f"{join.lower()}_e{n}", st, klass="racy")


def builder_e():
    """D has no pre-declared tasks: its tasks are made by the stage builder (zombie re-plan path)."""
    wl_ = W.Workload("builder_e", [W.St("A"), W.St("B", ("A",)), W.St("C", ("A",)),
                                   W.St("D", ("B", "C"), tasks=[], type="vbuild"), W.St("E", ("D",))])
    return wl_


W.diamond_e, W.join_e, W.builder_e = diamond_e, join_e, builder_e

SCENARIOS = {
    # name: (workload spec, skip prefixes for the sequential prefix, worker scripts (process_one calls per worker))
    "and:2xStartStage(D)": (wl("diamond_e"), ["StartStage:D"], [2, 2]),
    "and:CompleteStage(B)||CompleteStage(C)": (wl("diamond_e"), ["CompleteStage:B", "CompleteStage:C", "StartStage:D"], [2, 2]),
    "first-of:2xStartStage(D)": (wl("join_e", "DISCRIMINATOR"), ["StartStage:D"], [2, 2]),
    "first-of:CompleteStage(B)||CompleteStage(C)": (wl("join_e", "DISCRIMINATOR"), ["CompleteStage:B", "CompleteStage:C", "StartStage:D"], [2, 2]),
    "quorum2of3:CompleteStage(B)||CompleteStage(C)": (wl("join_e", "N_OF_M", 2, 3), ["CompleteStage:B", "CompleteStage:C", "StartStage:D", "StartTask:F", "StartStage:F"], [2, 2]),
    "builder-tasks:2xStartStage(D)": (wl("builder_e"), ["StartStage:D"], [2, 2]),
    "quorum2of3:StartStage(D)||CompleteStage(F) (late branch)": (wl("join_e", "N_OF_M", 2, 3), ["StartStage:D", "CompleteStage:F"], [1, 1]),
    "first-of3:StartStage(D)||CompleteStage(F) (late branch)": (wl("join_e", "DISCRIMINATOR", 0, 3), ["StartStage:D", "CompleteStage:F"], [1, 1]),
    "and:3xStartStage(D)": (wl("join_e", "AND", 0, 3), ["StartStage:D"], [1, 1, 1]),
}


def register_vbuild():
    from stabilize.models.task import TaskExecution as TE
    from stabilize.stages.builder import StageDefinitionBuilder, get_default_factory

    class VBuild(StageDefinitionBuilder):
        @property
        def type(self):
            return "vbuild"

        def build_tasks(self, stage):
            return [TE.create(name="t", implementing_class="v_t", stage_start=True, stage_end=True)]

    get_default_factory().register(VBuild())


def jobs(tier, seed):
    js = []
    for name, (spec, skip, scripts) in SCENARIOS.items():
        three = len(scripts) == 3
        if tier == "quick":
            bound = 1 if three else 2
            if name.startswith(("quorum", "first-of:Complete", "builder")):
                bound = 1
        else:
            bound = 2 if three else 3
        shards = 1 if bound <= 1 else (8 if bound == 2 else 16)
        for k in range(shards):
            js.append({"label": f"{name}|preemptions<={bound}|shard{k}/{shards}", "scenario": name, "bound": bound,
                       "shard": [k, shards]})
    js.sort(key=lambda j: -j["bound"])
    return js


def run_job(job):
    register_vbuild()
    spec, skip, scripts = SCENARIOS[job["scenario"]]
    workload = make_workload(spec)
    prep = prepare(workload, skip)
    memo = DrainMemo(workload)
    # sequential reference: same prepared state drained by one worker
    _v, _a, _q, ref_final, ref_led, ref_aud, ref_q = memo.drain(prep["image"], prep["behaviours"], prep["task_names"],
                                                                 prep["exec_counts"])
    ref_outcome = dumps(ref_final.outcome())
    stats = {"cas_lost": 0, "guard_ignored": 0, "drain_memo_hits": 0, "audit_rows": 0}

    def make_execution():
        fw = FileWorld(prep["image"], prep["behaviours"], prep["task_names"])
        fw.w.exec_counts = dict(prep["exec_counts"])
        errors = []

        def script(n):
            def run():
                for _ in range(n):
                    try:
                        fw.w.processor.process_one()
                    except Exception as e:  # handler exception: the real processor rescheduled the message
                        errors.append(type(e).__name__)
            return run

        def finish(sched):
            img = fw.image()
            led1 = list(fw.w.ledger)
            ec = dict(fw.w.exec_counts)
            fw.close()
            view, audit, qlog, final, led2, aud2, ql2 = memo.drain(img, prep["behaviours"], prep["task_names"], ec)
            viols = []
            lab = view.labels
            aud1 = [(r[1], lab.get(r[2], r[2]), r[3], r[4]) for r in audit]
            stats["audit_rows"] += len(aud1) + len(aud2)
            starts = [r for r in aud1 + aud2 if r[0] == "S" and r[1] == "D" and r[2] == "NOT_STARTED" and r[3] == "RUNNING"]
            if len(starts) != 1:
                viols.append({"kind": "stage-started-%d-times" % len(starts), "stage": "D", "sig": f"starts={len(starts)}"})
            runs = [e for e in led1 + led2 if e["stage"] == "D"]
            per_task = {}
            for e in runs:
                per_task[e["task"]] = per_task.get(e["task"], 0) + 1
            if any(n != 1 for n in per_task.values()) or not per_task:
                viols.append({"kind": "task-of-raced-stage-ran-not-exactly-once", "runs": per_task, "sig": f"task-runs={sorted(per_task.values())}"})
            e_runs = sum(1 for e in led1 + led2 if e["stage"] == "E")
            if e_runs != 1:
                viols.append({"kind": "downstream-ran-not-exactly-once", "runs": e_runs, "sig": f"downstream-runs={e_runs}"})
            qall = list(qlog) + list(ql2)
            d_id = [i for i, l in lab.items() if l == "D"]
            e_id = [i for i, l in lab.items() if l == "E"]
            def inserts(mtype, sid):
                n = 0
                for r in qall:
                    if r[1] == "Q" and r[2] == "+" and r[4] == mtype:
                        p = json.loads(r[5])
                        if p.get("stage_id") in sid and not p.get("retry_count"):
                            n += 1
                return n
            n_st = inserts("StartTask", d_id)
            n_ss = inserts("StartStage", e_id)
            if n_st != 1:
                viols.append({"kind": "stage-planned-not-exactly-once", "StartTask_inserts_for_D": n_st, "sig": f"StartTask-inserts={n_st}"})
            if n_ss != 1:
                viols.append({"kind": "downstream-triggered-not-exactly-once", "StartStage_inserts_for_E": n_ss, "sig": f"downstream-StartStage-inserts={n_ss}"})
            out = dumps(final.outcome())
            if out != ref_outcome:
                viols.append({"kind": "outcome-differs-from-sequential", "observed": final.outcome(), "sig": "outcome-differs"})
            for v in check_audit_rows([(0, r[0], r[1], r[2], r[3]) for r in aud1], "StartStage", {}):
                v["sig"] = "c06:" + v["sig"]
            stats["drain_memo_hits"] = memo.hits
            from vlib.e3 import CAS_LOST

            stats["cas_lost"] = CAS_LOST[0]
            return viols, out + "|" + ",".join(sorted(errors))

        return [script(n) for n in scripts], finish

    ex = IlvExplorer(make_execution, job["bound"], max_executions=job.get("max_executions", 60000),
                     time_cap=job.get("time_cap", 300), shard=tuple(job["shard"]) if job.get("shard") else None).run()
    cleanup_dir()
    s = ex.summary()
    viols, seen = [], set()
    for v in ex.violations:
        v["signature"] = f"e3:{v['sig']}@{job['scenario']}"
        if v["signature"] not in seen:
            seen.add(v["signature"])
            viols.append(v)
    s.update({"violations": viols, "samples": ex.samples[:1], "job_spec": job, "stats": stats,
              "outcome_classes": {k[-60:]: n for k, n in list(ex.outcomes.items())[:6]}, "pending_at_start": prep["pending"]})
    return s


def aggregate(results, tier, seed, pre):
    good = [r for r in results if "harness_error" not in r]
    execs = sum(r["executions"] for r in good)
    pts = sum(r["points"] for r in good)
    return {
        "level": "model_checking",
        "coverage": {
            "states": max(pts, 1), "transitions": max(pts, 1), "traces_validated_against_impl": execs,
            "samples": [{"job": r["job"], "schedule(thread index per scheduling point)": (r["samples"] or [[]])[0][:80]} for r in good[:3]],
            "exhaustive": not any(r["capped"] for r in good),
            "executions": execs, "scheduling_points": pts,
            "rule": "one execution = one complete interleaving of the worker threads at execute()/commit() granularity, chosen by iterative context bounding; "
                    "states/transitions count scheduling points executed on the real code (stateless exploration keeps no state set)",
            "per_job": [{k: r.get(k) for k in ("job", "executions", "points", "max_points", "bound", "capped", "distinct_outcomes",
                                               "lock_waits", "lock_deadlocks", "wall_s", "stats", "pending_at_start", "outcome_classes")} for r in good],
            "headline": {"jobs": len(good), "executions": execs, "capped": sum(1 for r in good if r["capped"])},
        },
        "assumptions": ["preemption only at SQL statements and commits of managed threads (GIL: no finer shared-memory races relevant to the property)",
                        "threads-of-one-process model: one QueueProcessor, shared dedup filter and _executing_tasks, thread-local connections, rollback-journal mode",
                        "SQLite busy wait modelled as blocking (busy_timeout=0 + retry when another thread stepped); the 30 s timeout itself is not modelled",
                        "after the concurrent section the queue is drained sequentially (FIFO)"],
    }


def replay(payload):
    job = payload["job"]
    r = run_job(job)
    return {"violations": [v for v in r["violations"] if v["signature"] == payload["violation"].get("signature")]}
