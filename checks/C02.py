"""C02 - redelivery and reordering never change the result or repeat finished work (E1)."""

from __future__ import annotations

import os
import sys

sys.path.insert(0, os.path.dirname(os.path.dirname(os.path.abspath(__file__))))

from vlib import runner  # noqa: E402
from vlib.e1 import Explorer  # noqa: E402
from vlib.e1 import Monitor  # noqa: E402
from vlib.e1jobs import aggregate_e1, make_workload, reference_outcomes, result_from, wl, world  # noqa: E402
from vlib.monitors import ExecOnceMonitor, LegalTransitionMonitor, OutcomeMonitor  # noqa: E402

PROPERTY = "C02"

CONFLUENT = [
    wl("chain3"), wl("diamond"), wl("multitask"), wl("diamond_multitask"), wl("fail_mid"), wl("raise_mid"),
    wl("continue_on_fail"), wl("skip_stage"), wl("poll", 1), wl("poll", 2), wl("transient", 1, True),
    wl("transient", 1, False), wl("or_split_join"), wl("jump_self", 1), wl("jump_cycle", 2, 1), wl("jump_cycle", 2, 2),
    wl("jump_cycle", 3, 1), wl("jump_forward_diamond", 1), wl("jump_side_fanin", 1), wl("synthetic"), wl("synthetic2"), wl("synthetic_raise"), wl("synthetic2_multitask"), wl("declared_after_ok"), wl("or_split_err"),
    wl("or_split_long"), wl("jump_back_multitask", 1),
    wl("multitask_fail", 0), wl("multitask_fail", 1),
]
RACY = [wl("fail_branch"), wl("first_of"), wl("quorum"), wl("multi_merge"), wl("synthetic2_failpre"), wl("declared_after_fc")]
BIG = [wl("fan3")]


def jobs(tier, seed):
    js = []
    from vlib import workloads as W

    dags = []
    for n in (2, 3, 4):
        for idx in range(len(W.dag_shapes(n))):
            dags.append(wl("dag_workload", n, idx))
    # a branch that stays in flight for 6 polling rounds while the workflow-completion check keeps being re-queued
    js.append({"label": "slow_branch[6]|all-orders|wait-horizon 20", "wl": wl("slow_branch", 6), "budget": {},
               "wait_retries": 20, "max_states": 400000})
    # the order in which parallel branches FINISHED is part of the state identity here (stage end times come from the
    # harness's logical clock): what a join sees must not depend on it
    for spec in [wl("diamond"), wl("fan3"), wl("diamond_multitask")]:
        js.append({"label": f"{spec[0]}{spec[1]}|all-orders|completion order in the state", "wl": spec, "budget": {},
                   "time_rank": True, "max_states": 400000})
    if tier == "quick":
        heavy = {"first_of", "quorum", "multi_merge", "jump_side_fanin"}
        for spec in CONFLUENT + RACY:
            if spec[0] in heavy:
                js.append({"label": f"{spec[0]}{spec[1]}|all-orders", "wl": spec, "budget": {}})
            else:
                js.append({"label": f"{spec[0]}{spec[1]}|noack1", "wl": spec, "budget": {"noack": 1}})
        for spec in BIG:
            js.append({"label": f"{spec[0]}|noack0", "wl": spec, "budget": {}})
        for spec in dags:
            n = spec[1][0]
            small = n <= 2 or (n == 3 and spec[1][1] != 0)
            js.append({"label": f"dag{spec[1]}|noack{1 if small else 0}", "wl": spec,
                       "budget": {"noack": 1} if small else {}})
    else:
        for spec in CONFLUENT + RACY:
            js.append({"label": f"{spec[0]}{spec[1]}|noack2", "wl": spec, "budget": {"noack": 2}, "max_states": 400000})
            js.append({"label": f"{spec[0]}{spec[1]}|noack1,early1", "wl": spec, "budget": {"noack": 1, "early": 1}})
        for spec in BIG:
            js.append({"label": f"{spec[0]}|noack1", "wl": spec, "budget": {"noack": 1}})
        for spec in dags:
            js.append({"label": f"dag{spec[1]}|noack1", "wl": spec, "budget": {"noack": 1}})
        js.append({"label": "diamond|audit", "wl": wl("diamond"), "budget": {"noack": 1}, "bisim": True})
        js.append({"label": "chain3|audit", "wl": wl("chain3"), "budget": {"noack": 2}, "bisim": True})
    return js


class SeenDataMonitor(Monitor):
    """Where the in-order run leaves no doubt (no loops, no racy joins): every task execution sees a context that the
    same execution saw under in-order delivery - including keys published by several unordered branches, whose
    tie-break must be a function of the graph, not of which branch happened to finish last."""

    name = "seen"

    def __init__(self, ref_ledger):
        self.ref = {}
        for e in ref_ledger:
            self.ref.setdefault((e["stage"], e["task"], e["step"]), set()).add(self.digest(e["ctx"]))

    @staticmethod
    def digest(ctx):
        from vlib.world import dumps

        return dumps({k: (sorted(x, key=str) if isinstance(x, list) else x) for k, x in ctx.items() if not k.startswith("_")})

    def step(self, ex, tr, ms):
        v = []
        for e in tr.ledger:
            want = self.ref.get((e["stage"], e["task"], e["step"]))
            if want is not None and self.digest(e["ctx"]) not in want:
                v.append({"kind": "execution-saw-data-the-in-order-run-never-shows", "stage": e["stage"], "task": e["task"],
                          "saw": self.digest(e["ctx"])[:200], "in_order": sorted(want)[0][:200], "sig": "data-seen-differs"})
        return ms, v


def build(job):
    from vlib.world import DEFAULT_WAIT_RETRIES

    w = world()
    # the "stage still running, poll again" horizon: production 240 x 15 s; 2 in the harness unless a workload
    # legitimately keeps a stage in flight for several polling rounds
    w.wait_retries = job.get("wait_retries", DEFAULT_WAIT_RETRIES[0])
    w.time_rank = bool(job.get("time_rank"))
    workload = make_workload(job["wl"])
    adm, _ledger, _ = reference_outcomes(w, workload)
    mons = [OutcomeMonitor(adm), ExecOnceMonitor(), LegalTransitionMonitor()]
    if workload.klass == "confluent" and not any((sc.get("kind") == "jump") for st_ in workload.stages for _n, sc in (st_.tasks or [])):
        mons.append(SeenDataMonitor(_ledger))
    ex = Explorer(w, workload, mons, job.get("budget"), max_states=job.get("max_states", 150000),
                  time_cap=job.get("time_cap", 600), audit_bisim=job.get("bisim", False))
    ex._adm = adm
    return ex


def run_job(job):
    ex = build(job)
    if job.get("bisim"):
        from vlib.bisim import audit

        return audit(ex, job)
    ex.run()
    res = result_from(ex, "e1")
    # the reference itself (in-order, exactly-once delivery) is not beyond question: where the intended outcome
    # is plain - every task succeeds - it must be SUCCEEDED with every stage SUCCEEDED
    import json as _json

    if ex.wl.plainly_succeeds():
        for o in ex._adm:
            oo = _json.loads(o)
            if oo["wf"] != "SUCCEEDED" or any(x != "SUCCEEDED" for x in oo["stages"].values()):
                res["violations"].append({"kind": "in-order-exactly-once-run-does-not-succeed", "outcome": oo,
                                          "sig": "in-order-run-wrong", "signature": f"e1:in-order-run-wrong:wf={oo['wf']}",
                                          "workload": ex.wl.name, "trace": ["(in-order delivery, no fault)"]})
    res["job_spec"] = job
    return res


def aggregate(results, tier, seed, pre):
    return aggregate_e1(results, tier, seed, pre)


def replay(payload):
    job = payload["job"]
    ex = build(job)
    out, viols, st = ex.replay(payload["violation"]["trace"])
    return {"steps": out, "violations": viols, "final_outcome": st.view.outcome()}


def preflight(tier, seed):
    from vlib.selfcheck import determinism

    return determinism()


def order_jobs(js):
    return js


if __name__ == "__main__":
    runner.main(sys.modules[__name__])
