"""C19 - what is stored or queued is read back unchanged (E5 small-scope enumeration)."""

from __future__ import annotations

import dataclasses
import itertools
import json
import logging

logging.disable(logging.CRITICAL)

PROPERTY = "C19"

BIG = "x" * 65536
VALUES = [
    {}, [], "", "x", 0, -1, 2 ** 63, -(2 ** 63) - 1, 1.5, 0.1 + 0.2, 1e308, True, False, None,
    {"a": [1, {"b": None}], "": 1, "k.with.dots": {"é": "漢😀"}}, "é漢😀", "quote\" back\\slash 'single'", "ctl\n\t\x01\x7f",
    BIG, [[[[[[[[[[1]]]]]]]]]], {"list": [1, "a", None, True, 1.5, {"x": []}]}, "  ", "null", "0", " ", [None], {"a": {}},
    {"_private": 1, "__dunder__": [2], "n": {"_nested": {"_deeper": None}, "l": [{"_in_list": True}]}, "_": ""},
]


def jeq(a, b):
    return json.dumps(a, sort_keys=True) == json.dumps(b, sort_keys=True) and type(a) is type(b)


def fresh_store():
    from vlib.world import World

    w = World(monitors=False)
    w.create_schema()
    c = w.conn
    for t in ("queue_messages", "queue_messages_dlq", "processed_messages", "task_executions", "stage_executions",
              "pipeline_executions"):
        c.execute(f"DELETE FROM {t}")
    c.commit()
    w.pristine = c.serialize()
    w.incarnate()
    return w


STAGE_CMP = ["id", "ref_id", "type", "name", "status", "context", "outputs", "requisite_stage_ref_ids", "parent_stage_id",
             "synthetic_stage_owner", "start_time", "end_time", "start_time_expiry", "scheduled_time", "join_type",
             "join_threshold", "split_type", "split_conditions", "deferred_choice_group", "milestone_ref_id",
             "milestone_status", "mutex_key", "cancel_region"]
TASK_CMP = ["id", "name", "implementing_class", "status", "start_time", "end_time", "stage_start", "stage_end", "loop_start",
            "loop_end", "task_exception_details"]


def diff_stage(a, b, where, viols, what):
    for f in STAGE_CMP:
        va, vb = getattr(a, f), getattr(b, f)
        if isinstance(va, (dict, list)):
            same = jeq(va, vb)
        else:
            same = va == vb and type(va) is type(vb)
        if not same:
            viols.append({"kind": "stage-field-changed-on-round-trip", "field": f, "wrote": repr(va)[:80], "read": repr(vb)[:80],
                          "case": what, "sig": f"stage:{f}:{where}"})
    if [t.id for t in a.tasks] != [t.id for t in b.tasks]:
        viols.append({"kind": "task-order-or-set-changed", "wrote": [t.name for t in a.tasks], "read": [t.name for t in b.tasks],
                      "case": what, "sig": f"task-order:{where}"})
    else:
        for ta, tb in zip(a.tasks, b.tasks):
            for f in TASK_CMP:
                va, vb = getattr(ta, f), getattr(tb, f)
                same = jeq(va, vb) if isinstance(va, (dict, list)) else (va == vb and type(va) is type(vb))
                if not same:
                    viols.append({"kind": "task-field-changed-on-round-trip", "field": f, "wrote": repr(va)[:80],
                                  "read": repr(vb)[:80], "case": what, "sig": f"task:{f}:{where}"})


def base_stage(i=0, **over):
    from stabilize import StageExecution, TaskExecution

    kw = dict(ref_id=f"s{i}", type="t", name=f"stage {i}", context={"k": 1}, outputs={"o": 2},
              tasks=[TaskExecution.create(name="t1", implementing_class="c1", stage_start=True, stage_end=True)])
    kw.update(over)
    return StageExecution(**kw)


def stage_cases(pairs):
    from stabilize import TaskExecution
    from stabilize.models.stage import JoinType, SplitType, SyntheticStageOwner
    from stabilize.models.status import WorkflowStatus

    single = []
    for st in WorkflowStatus:
        single.append(("status", st))
    for j in JoinType:
        single.append(("join_type", j))
    for s in SplitType:
        single.append(("split_type", s))
    for f in ("deferred_choice_group", "milestone_ref_id", "milestone_status", "mutex_key", "cancel_region"):
        for v in (None, "", "v", "é漢"):
            single.append((f, v))
    for f in ("start_time", "end_time", "start_time_expiry", "scheduled_time"):
        for v in (None, 0, 123, 2 ** 53):
            single.append((f, v))
    for v in (0, 2, 5):
        single.append(("join_threshold", v))
    for v in ({}, {"b": "x == 1"}, {"é": "'q' in l", "": ""}):
        single.append(("split_conditions", v))
    for v in VALUES:
        if isinstance(v, dict):
            single.append(("context", v))
            single.append(("outputs", v))
        single.append(("context", {"v": v}))
        single.append(("outputs", {"v": v}))
    for v in (set(), {"a"}, {"a", "b", "c"}):
        single.append(("requisite_stage_ref_ids", v))
    for v in ("", "n", "é漢😀 \"q\""):
        single.append(("name", v))
        single.append(("type", v or "t"))
    for own in SyntheticStageOwner:
        single.append(("synthetic", own))
    for n in (0, 1, 2, 3):
        single.append(("tasks", n))
    for st in WorkflowStatus:
        single.append(("task_status", st))
    for v in ({}, {"exception": {"details": {"error": "é", "errors": ["a"]}}}):
        single.append(("task_exception_details", v))
    single.append(("output_reducers", {"n": "sum"}))
    cases = [[c] for c in single]
    if pairs:
        for a, b in itertools.combinations(single[::3], 2):
            if a[0] != b[0]:
                cases.append([a, b])
    return cases


def build_stage(case, i=0):
    from stabilize import TaskExecution

    over = {}
    post = []
    for (f, v) in case:
        if f == "synthetic":
            over["parent_stage_id"] = "01PARENT"
            over["synthetic_stage_owner"] = v
        elif f == "tasks":
            over["tasks"] = [TaskExecution.create(name=f"t{k}", implementing_class=f"c{k}", stage_start=(k == 0), stage_end=(k == v - 1))
                             for k in range(v)]
        elif f == "task_status":
            post.append(lambda s, v=v: s.tasks and setattr(s.tasks[0], "status", v))
        elif f == "task_exception_details":
            post.append(lambda s, v=v: s.tasks and setattr(s.tasks[0], "task_exception_details", dict(v)))
        elif f in ("context", "outputs", "split_conditions"):
            over[f] = json.loads(json.dumps(v))
        elif f == "requisite_stage_ref_ids":
            over[f] = set(v)
        else:
            over[f] = v
    s = base_stage(i, **over)
    for p in post:
        p(s)
    return s


def store_job(job):
    from stabilize import Workflow
    from stabilize.models.workflow import Trigger

    w = fresh_store()
    cases = stage_cases(job["pairs"])
    if job.get("shard"):
        k, n = job["shard"]
        cases = [c for i, c in enumerate(cases) if i % n == k]
    evals, viols, samples = 0, [], []
    for ci, case in enumerate(cases):
        w.load(w.pristine)
        what = [(f, repr(v)[:40]) for f, v in case]
        st = build_stage(case, 0)
        other = base_stage(1)
        # referenced stages must exist for validation when requisites are set: store through the store API directly
        wf = Workflow(application="app", name="n é", stages=[st, other], context={"_max_jumps": 3, "c": {"v": [1]}},
                      trigger=Trigger(user="u é", parameters={"p": [1, {"q": None}]}) if hasattr(Trigger, "__dataclass_fields__") else Trigger())
        for s in wf.stages:
            s.execution = wf
        expect = snapshot(st)
        expect_wf = wf_snapshot(wf)
        try:
            w.store.store(wf)
        except Exception as e:  # noqa: BLE001
            viols.append({"kind": "store-raised", "case": what, "error": repr(e)[:120], "sig": "store-raised:" + type(e).__name__})
            continue
        evals += 1
        back = w.store.retrieve(wf.id)
        got = next(s for s in back.stages if s.id == st.id)
        diff_stage(expect, got, "retrieve", viols, what)
        got2 = w.store.retrieve_stage(st.id)
        diff_stage(expect, got2, "retrieve_stage", viols, what)
        for f, va in expect_wf.items():
            vb = wf_snapshot(back)[f]
            if not (jeq(va, vb) if isinstance(va, (dict, list)) else va == vb):
                viols.append({"kind": "workflow-field-changed-on-round-trip", "field": f, "wrote": repr(va)[:80],
                              "read": repr(vb)[:80], "sig": f"workflow:{f}"})
        if [s.id for s in back.stages] != [s.id for s in wf.stages]:
            viols.append({"kind": "stage-order-changed", "sig": "stage-order"})
        # read-modify-write: change ONE thing, everything else must stay
        for ri, change in enumerate(("context", "outputs", "status", "task", "outputs+context", "outputs", "fill", "clear", "fill",
                                     "clear")):
            cur = w.store.retrieve_stage(st.id)
            before = snapshot(cur)
            phase = cur.status.name  # the status the row has now: what a CAS save expects
            if "context" in change:
                cur.context["added"] = {"n": ci, "_r": ri}
                before.context["added"] = {"n": ci, "_r": ri}
            if "outputs" in change:
                cur.outputs["produced"] = {"n": [ci, ri], "_u": None}
                before.outputs["produced"] = {"n": [ci, ri], "_u": None}
                cur.outputs.pop("o", None)
                before.outputs.pop("o", None)
            if change in ("fill", "clear"):
                # every nullable / emptiable RUN-TIME field (the ones a stage save writes: times, outputs, context, task
                # times and details - not the definitional settings fixed at creation) set to a value, then back to
                # None / empty, as re-arming a stage for a retry loop does: a save must be able to CLEAR what an earlier
                # save wrote
                fill = change == "fill"
                for obj in (cur, before):
                    obj.start_time, obj.end_time = (1000 + ri, 2000 + ri) if fill else (None, None)
                    obj.outputs = {"filled": ri} if fill else {}
                    obj.context = dict(obj.context, filled=ri) if fill else {k: x for k, x in obj.context.items() if k != "filled"}
                    for t in obj.tasks:
                        t.start_time, t.end_time = (3000 + ri, 4000 + ri) if fill else (None, None)
                        t.task_exception_details = {"e": ri} if fill else {}
            elif change in ("context", "outputs", "outputs+context"):
                pass
            elif change == "status":
                from stabilize.models.status import WorkflowStatus

                cur.status = WorkflowStatus.RUNNING
                before.status = WorkflowStatus.RUNNING
            elif cur.tasks:
                from stabilize.models.status import WorkflowStatus

                cur.tasks[-1].status = WorkflowStatus.SUCCEEDED
                before.tasks[-1].status = WorkflowStatus.SUCCEEDED
            try:
                how = (ci + ri) % 4
                if how == 0:
                    w.store.store_stage(cur)
                elif how == 1:
                    with w.store.transaction() as txn:
                        txn.store_stage(cur)
                elif how == 2:
                    with w.store.transaction() as txn:
                        txn.store_stage(cur, expected_phase=phase)
                else:
                    w.store.store_stage(cur, expected_phase=phase)
            except Exception as e:  # noqa: BLE001
                viols.append({"kind": "store_stage-raised", "case": what, "error": repr(e)[:120], "sig": "store_stage-raised:" + type(e).__name__})
                continue
            evals += 1
            after = w.store.retrieve_stage(st.id)
            diff_stage(before, after, f"rmw-{change}", viols, what)
            untouched = w.store.retrieve_stage(other.id)
            diff_stage(snapshot(other), untouched, "rmw-other-stage", viols, what)
        if len(samples) < 3:
            samples.append({"case": what})
    return pack(job, evals, len(cases), viols, samples)


def snapshot(stage):
    import copy

    s = copy.copy(stage)
    s.context = json.loads(json.dumps(stage.context))
    s.outputs = json.loads(json.dumps(stage.outputs))
    s.split_conditions = dict(stage.split_conditions)
    s.requisite_stage_ref_ids = set(stage.requisite_stage_ref_ids)
    s.tasks = [copy.copy(t) for t in stage.tasks]
    for t in s.tasks:
        t.task_exception_details = json.loads(json.dumps(t.task_exception_details))
    return s


def wf_snapshot(wf):
    return {"id": wf.id, "application": wf.application, "name": wf.name, "status": wf.status, "type": wf.type,
            "context": json.loads(json.dumps(wf.context)), "trigger": wf.trigger.to_dict(), "is_canceled": wf.is_canceled,
            "pipeline_config_id": wf.pipeline_config_id, "start_time": wf.start_time, "end_time": wf.end_time}


# ------------------------------------------------------------------ messages
def message_instances():
    from stabilize.models.stage import SyntheticStageOwner
    from stabilize.models.status import WorkflowStatus
    from stabilize.queue.messages import MESSAGE_TYPES

    out = []
    dicts = [v for v in VALUES if isinstance(v, dict)] + [{"v": v} for v in VALUES if not isinstance(v, dict)]
    for name, cls in MESSAGE_TYPES.items():
        fields = {f.name: f for f in dataclasses.fields(cls)}
        base = {}
        for fn in fields:
            if fn in ("message_id", "created_at", "attempts", "max_attempts", "last_error", "last_error_type"):
                continue
            base[fn] = None
        doms = {}
        for fn in base:
            if fn in ("execution_id", "stage_id", "task_id", "user", "reason", "signal_name", "region", "target_stage_ref_id",
                      "task_type", "task_type_name", "pipeline_config_id"):
                doms[fn] = ["", "id-1", "é漢😀 \"q\" \\", "01HZZZZZZZZZZZZZZZZZZZZZZZ"]
            elif fn == "execution_type":
                doms[fn] = ["PIPELINE", "ORCHESTRATION"]
            elif fn == "retry_count":
                doms[fn] = [0, 1, 239]
            elif fn in ("jump_context", "jump_outputs", "signal_data", "instance_context"):
                doms[fn] = dicts
            elif fn == "status":
                doms[fn] = list(WorkflowStatus)
            elif fn == "original_status":
                doms[fn] = [None] + list(WorkflowStatus)
            elif fn == "phase":
                doms[fn] = list(SyntheticStageOwner)
            elif fn in ("persistent", "purge_queue"):
                doms[fn] = [True, False]
            else:
                raise RuntimeError(f"harness: no domain for {name}.{fn}")
        default = {fn: d[1] if len(d) > 1 and fn not in ("status", "original_status", "phase", "execution_type") else d[0]
                   for fn, d in doms.items()}
        out.append((name, cls, dict(default)))
        for fn, d in doms.items():
            for v in d:
                kw = dict(default)
                kw[fn] = v
                out.append((name, cls, kw))
    return out


def message_job(job):
    w = fresh_store()
    insts = message_instances()
    evals, viols, samples = 0, [], []
    for (name, cls, kw) in insts:
        got = {}
        payloads = {}
        for how in ("queue.push", "txn.push_message"):
            w.load(w.pristine)
            w.queue._pending.clear()
            msg = cls(**json.loads(json.dumps(kw, default=lambda o: {"__enum__": [type(o).__name__, o.name]}), object_hook=enum_hook))
            try:
                if how == "queue.push":
                    w.queue.push(msg)
                else:
                    with w.store.transaction(w.queue) as txn:
                        txn.push_message(msg)
            except Exception as e:  # noqa: BLE001
                viols.append({"kind": "push-raised", "type": name, "how": how, "error": repr(e)[:100], "sig": f"push-raised:{how}"})
                continue
            row = w.conn.execute("SELECT message_type, payload FROM queue_messages").fetchone()
            payloads[how] = (row["message_type"], json.loads(row["payload"]))
            back = w.queue.poll_one()
            evals += 1
            if back is None or type(back) is not cls:
                viols.append({"kind": "message-type-changed", "type": name, "how": how, "got": type(back).__name__,
                              "sig": f"message-type:{how}"})
                continue
            got[how] = back
            for fn, v in kw.items():
                vb = getattr(back, fn)
                same = jeq(v, vb) if isinstance(v, (dict, list)) else (v == vb and type(v) is type(vb))
                if not same:
                    viols.append({"kind": "message-field-changed", "type": name, "field": fn, "how": how, "wrote": repr(v)[:60],
                                  "read": repr(vb)[:60], "sig": f"message-field:{fn}:{how}"})
        if len(payloads) == 2:
            a, b = payloads["queue.push"], payloads["txn.push_message"]
            for p in (a[1], b[1]):
                p.pop("created_at", None)
                p.pop("message_id", None)
            if a != b:
                viols.append({"kind": "serialisers-disagree", "type": name, "queue": str(a)[:120], "txn": str(b)[:120],
                              "sig": "serialisers-disagree"})
        if len(samples) < 3 and name in ("JumpToStage", "CompleteTask"):
            samples.append({"type": name, "fields": {k: repr(v)[:40] for k, v in kw.items()}})
    return pack(job, evals, len(insts), viols, samples)


def enum_hook(d):
    if "__enum__" in d and len(d) == 1:
        from stabilize.models.stage import SyntheticStageOwner
        from stabilize.models.status import WorkflowStatus

        tname, member = d["__enum__"]
        return {"WorkflowStatus": WorkflowStatus, "SyntheticStageOwner": SyntheticStageOwner}[tname][member]
    return d


def pack(job, evals, distinct, viols, samples):
    out, seen = [], set()
    for v in viols:
        v["signature"] = "e5:" + v["sig"]
        v.setdefault("trace", [v.get("case") or v.get("type")])
        if v["signature"] not in seen:
            seen.add(v["signature"])
            out.append(v)
    return {"evaluations": evals, "distinct": distinct, "violations": out, "violation_instances": len(viols),
            "samples": samples, "job_spec": job}


def jobs(tier, seed):
    js = [{"label": "messages x both serialisers", "kind": "msg"}]
    if tier == "quick":
        for k in range(4):
            js.append({"label": f"stage records, one field at a time|shard{k}/4", "kind": "store", "pairs": False, "shard": [k, 4]})
    else:
        for k in range(16):
            js.append({"label": f"stage records, pairs of fields|shard{k}/16", "kind": "store", "pairs": True, "shard": [k, 16]})
    return js


def run_job(job):
    return message_job(job) if job["kind"] == "msg" else store_job(job)


def aggregate(results, tier, seed, pre):
    good = [r for r in results if "harness_error" not in r]
    return {
        "level": "exploration",
        "coverage": {
            "evaluations": sum(r["evaluations"] for r in good),
            "distinct_nontrivial": sum(r["distinct"] for r in good),
            "rule": "stage records: every enum member of status/join/split/synthetic owner, every optional field over {None,'',value,unicode}, 0-3 tasks, "
                    "27 JSON values (empty, nested, unicode incl. astral, quotes, control chars, 2^63, floats, 64 KB string, deep nesting) in context/outputs; one field "
                    "varied at a time (thorough: pairs); each stored through store(), read through retrieve() and retrieve_stage(), then three read-modify-write "
                    "ten read-modify-write rounds (context / outputs / status / task changed, every nullable field filled and cleared again, twice) through the four save paths: store.store_stage and AtomicTransaction.store_stage, each with and without expected_phase. messages: every message class x every field over its domain through queue.push AND "
                    "AtomicTransaction.push_message, polled back; distinct_nontrivial counts distinct records/instances",
            "samples": [s for r in good for s in r.get("samples", [])][:4] or [{"note": "none"}],
            "exhaustive": True,
            "per_job": [{k: r.get(k) for k in ("job", "evaluations", "distinct", "violation_instances", "wall_s")} for r in good],
            "headline": {"jobs": len(good), "evaluations": sum(r["evaluations"] for r in good)},
        },
        "assumptions": ["small-scope hypothesis over the listed value alphabet; only JSON-representable values are claimed",
                        "SQLite backend"],
    }


def replay(payload):
    r = run_job(payload["job"])
    want = payload["violation"].get("signature")
    return {"violations": [v for v in r["violations"] if v.get("signature") == want]}
