"""C16 - a stage sees exactly its ancestors' outputs, the nearest ancestor winning (E1 + E5).

E1 half: every task execution of every delivery order is compared with an
independent reference merge of the ancestors' *current durable* outputs
(pre-state rows), restricted to path-ordered keys.
E5 half: fan-in reducers under every permutation of branch outputs.
"""

from __future__ import annotations

import itertools

from vlib import workloads as W
from vlib.dataflow import producers, totally_ordered
from vlib.e1 import Explorer, Monitor
from vlib.e1jobs import aggregate_e1, make_workload, result_from, wl, world

PROPERTY = "C16"


def topo(workload, refs):
    return sorted(refs, key=lambda r: (len(workload.ancestors(r)), r))


class DataflowMonitor(Monitor):
    """Reference = an independent model of what every stage has published in its current arming (built from
    the execution ledger, reset when the stage row is durably re-armed), merged along the dependency path.
    Checked: what each execution saw, and that the durable outputs of a finished stage are exactly what its
    executions of the current arming published."""

    name = "data"

    def __init__(self, workload):
        self.wl = workload
        self.prod = producers(workload)

    def init(self, ex):
        return {"out": {}, "last": {}, "ran": {}, "n": 0}

    def step(self, ex, tr, ms):
        v = []
        model = {k: dict(o) for k, o in ms["out"].items()}
        last = {k: dict(o) for k, o in ms.get("last", {}).items()}
        ran, n = dict(ms.get("ran", {})), ms.get("n", 0)
        for (_seq, tbl, ident, old, new) in tr.audit:
            if tbl == "S" and new == "NOT_STARTED" and old is not None:
                lab_ = tr.post.labels.get(ident, ident)
                model[lab_] = {}  # re-armed: a new iteration starts from nothing
                # ... except for what the recorded defect leaves behind: the inherited copies in the stage's own context
                kept = {k: x for k, x in tr.post.stages.get(lab_, {}).get("ctx", {}).items()
                        if k in self.prod and not isinstance(x, list)}
                last[lab_] = dict(last.get(lab_, {}), **kept)
        for e in tr.ledger:
            s = e["stage"]
            spec = self.wl.spec(s)
            n += 1
            if spec is not None and spec.join == "AND":
                v.extend(self.check_seen(tr, e, s, spec, model, last.get(s, {})))
                # "as produced in the current loop iteration": whatever this execution inherits from an ancestor X was
                # produced AFTER the latest run of every stage X itself depends on (no branch left over from an
                # earlier iteration feeds a stage of the current one)
                anc = self.wl.ancestors(s)
                for x in anc:
                    if x not in ran or self.wl.spec(x) is None:
                        continue
                    for t_ in self.wl.ancestors(x):
                        if t_ in ran and ran[t_] > ran[x] and tr.pre.stages.get(x, {}).get("status") != "SKIPPED":
                            v.append({"kind": "inherits-from-a-branch-of-an-earlier-iteration", "stage": s, "stale_ancestor": x,
                                      "re_run_upstream": t_, "sig": "stale-branch"})
            ran[s] = n
            model.setdefault(s, {}).update(e.get("out") or {})
            last[s] = {k: x for k, x in e["ctx"].items() if k in self.prod and not isinstance(x, list)}
        # a stage that has just finished publishes exactly what its executions of this arming produced
        for (_seq, tbl, ident, old, new) in tr.audit:
            if tbl != "S" or new not in ("SUCCEEDED", "FAILED_CONTINUE"):
                continue
            lab = tr.post.labels.get(ident, ident)
            spec = self.wl.spec(lab)
            if spec is None or lab not in tr.post.stages:
                continue
            durable = {k: x for k, x in tr.post.stages[lab]["out"].items() if k in self.prod}
            want = {k: x for k, x in model.get(lab, {}).items() if k in self.prod}
            if durable != want:
                extra = sorted(set(durable) - set(want))
                v.append({"kind": "finished-stage-publishes-other-than-it-produced", "stage": lab, "durable": durable,
                          "produced_this_iteration": want, "stale_keys": extra,
                          "sig": "published-differs:" + ("stale-key" if extra else "value")})
        return {"out": model, "last": last, "ran": ran, "n": n}, v

    def check_seen(self, tr, e, s, spec, model, prev_seen):
        v = []
        anc = self.wl.ancestors(s)
        ref = {}
        for a in topo(self.wl, anc):
            for k, val in model.get(a, {}).items():
                if isinstance(ref.get(k), list) and isinstance(val, list):
                    ref[k] = ref[k] + [x for x in val if x not in ref[k]]
                else:
                    ref[k] = list(val) if isinstance(val, list) else val
        seen = e["ctx"]
        loop = bool(seen.get("_jump_count") or tr.pre.stages[s]["ctx"].get("_jump_count"))
        for k, exp in ref.items():
            rel = self.prod.get(k, set()) & anc
            own = k in spec.ctx
            if own and not isinstance(spec.ctx[k], list):
                want = spec.ctx[k]  # a non-list value set on the stage itself wins, whatever the ancestors hold
                if seen.get(k, "<missing>") != want:
                    v.append({"kind": "own-value-did-not-win", "stage": s, "key": k, "saw": seen.get(k, "<missing>"),
                              "expected": want, "ancestors_value": exp, "sig": "own-value-lost"})
                continue
            if isinstance(exp, list):
                got = seen.get(k)
                want = sorted(exp + [x for x in spec.ctx[k] if x not in exp], key=str) if own else sorted(exp, key=str)
                if not isinstance(got, list) or sorted(got, key=str) != want:
                    v.append({"kind": "list-output-not-accumulated", "stage": s, "key": k, "saw": got, "expected": want,
                              "sig": f"list-differs:{'loop' if loop else 'plain'}"})
                continue
            if own:
                continue  # own list over an ancestor's scalar: the property makes no claim
            if len(rel) > 1 and not totally_ordered(self.wl, rel):
                continue  # unordered producers: the property makes no claim
            if seen.get(k, "<missing>") != exp:
                it = any(st["ctx"].get("_jump_count") for st in tr.pre.stages.values())
                # the recorded defect: in a later loop iteration the stage still sees exactly the value it saw in
                # its own previous execution (the inherited copy kept in its context); anything else is new
                same_as_before = k in prev_seen and seen.get(k, "<missing>") == prev_seen[k]
                cls = "plain" if not it else ("stale-after-jump" if same_as_before else "wrong-in-loop")
                v.append({"kind": "saw-wrong-upstream-value", "stage": s, "key": k, "saw": seen.get(k, "<missing>"),
                          "expected": exp, "producers": sorted(rel), "own": own, "previous_execution_saw": prev_seen.get(k),
                          "sig": f"value-differs:{cls}"})
        for k in seen:
            if k.startswith("_") or k in spec.ctx:
                continue
            ps = self.prod.get(k)
            if ps and not (ps & (anc | {s})):
                v.append({"kind": "saw-non-ancestor-output", "stage": s, "key": k, "producers": sorted(ps),
                          "sig": "non-ancestor-leak"})
            elif ps and k not in ref and not (ps & {s}):
                # produced by an ancestor only in an iteration that was abandoned (or not at all in this one)
                v.append({"kind": "saw-output-no-ancestor-currently-publishes", "stage": s, "key": k, "saw": seen[k],
                          "producers": sorted(ps), "sig": f"stale-output-seen:{'loop' if loop else 'plain'}"})
        return v


# workloads with overlapping keys, own-context precedence and list own values
def own_ctx_diamond():
    w = W.diamond()
    w.name = "diamond_own"
    w.spec("D").ctx.update({"k": "mine", "l": ["mine"]})
    w.spec("B").ctx.update({"o_A": "overridden-by-B-own-context"})
    return w


W.own_ctx_diamond = own_ctx_diamond


def own_ctx_mixed():
    """own scalar where the ancestors publish a list, own list where they publish a scalar"""
    w = W.diamond()
    w.name = "diamond_own_mixed"
    w.spec("D").ctx.update({"l": "own-scalar", "k": ["own-list"]})
    w.spec("B").ctx.update({"l": "b-own-scalar"})
    return w


W.own_ctx_mixed = own_ctx_mixed


def reducer_permutations(max_branches):
    """E5: apply_output_reducers under every permutation of branch outputs.  Alphabet per branch: falsy and
    negative numbers, a branch that does not produce the key at all, scalar / empty / list values for collect."""
    from stabilize.reducers import apply_output_reducers

    MISSING = "<missing>"
    evals, viols, samples = 0, [], []
    nums = [0, -3, 2, 2, 5, MISSING]
    cols = [0, False, "", "x", [7, 0], MISSING]
    srt = lambda xs: sorted(xs, key=repr)  # noqa: E731

    def flat(xs):
        out = []
        for x in xs:
            out.extend(x) if isinstance(x, list) else out.append(x)
        return out

    for n in range(2, max_branches + 1):
        for combo in itertools.product(range(len(nums)), repeat=n):
            nv = [nums[i] for i in combo]
            cv = [cols[i] for i in combo]
            branches = []
            for i in range(n):
                b = {}
                if nv[i] is not MISSING:
                    b["n"] = nv[i]
                    b["d"] = {f"k{i}": nv[i]}
                if cv[i] is not MISSING:
                    b["c"] = cv[i]
                branches.append(b)
            present_n = [x for x in nv if x is not MISSING]
            present_c = [x for x in cv if x is not MISSING]
            ref = None
            for perm in itertools.permutations(range(n)):
                outs = [branches[i] for i in perm]
                res = {}
                for red in ("sum", "max", "min"):
                    res[red] = apply_output_reducers({"n": red}, outs)
                res["merge"] = apply_output_reducers({"d": "merge"}, outs)
                for red in ("collect", "extend"):
                    col = apply_output_reducers({"c": red}, outs)
                    res[red] = {"c": srt(col["c"])} if "c" in col else {}
                evals += 1
                if ref is None:
                    ref = res
                    if len(samples) < 2 and 0 in present_n:
                        samples.append({"branches": branches, "result": res})
                    if present_n:
                        exp = {"sum": sum(present_n), "max": max(present_n), "min": min(present_n)}
                        for red, want in exp.items():
                            if res[red].get("n") != want or type(res[red].get("n")) is not type(want):
                                viols.append({"kind": "reducer-wrong-value", "reducer": red, "got": res[red], "expected": want,
                                              "sig": f"reducer-value:{red}", "signature": f"e5:reducer-value:{red}",
                                              "trace": [branches]})
                        wantd = {f"k{i}": nv[i] for i in range(n) if nv[i] is not MISSING}
                        if res["merge"].get("d") != wantd:
                            viols.append({"kind": "reducer-wrong-value", "reducer": "merge", "got": res["merge"],
                                          "expected": wantd, "sig": "reducer-value:merge",
                                          "signature": "e5:reducer-value:merge", "trace": [branches]})
                    elif any(res[r] for r in ("sum", "max", "min", "merge")):
                        viols.append({"kind": "reducer-invented-a-value", "got": {r: res[r] for r in ("sum", "max", "min")},
                                      "sig": "reducer-invented", "signature": "e5:reducer-invented", "trace": [branches]})
                    if present_c:
                        for red in ("collect", "extend"):
                            if res[red].get("c") != srt(flat(present_c)):
                                viols.append({"kind": "collect-lost-values", "reducer": red, "got": res[red],
                                              "expected": srt(flat(present_c)), "sig": f"reducer-{red}",
                                              "signature": f"e5:reducer-{red}", "trace": [branches]})
                elif res != ref:
                    bad = [r for r in res if res[r] != ref[r]]
                    viols.append({"kind": "reducer-order-sensitive", "reducers": bad, "branches": branches,
                                  "perm": list(perm), "sig": "reducer-order:" + ",".join(bad),
                                  "signature": "e5:reducer-order:" + ",".join(bad), "trace": [branches, list(perm)]})
    seen, out = set(), []
    for v in viols:
        if v["signature"] not in seen:
            seen.add(v["signature"])
            out.append(v)
    return {"states": evals, "transitions": evals, "violations": out, "samples": [], "reducer_samples": samples,
            "reducer_evaluations": evals}


def fan_reducer():
    """End to end: three branches publish n; E reduces with sum/max/collect under every completion order."""
    mk = lambda r, x: [("t", {"kind": "ok", "out": {"n": ("const", x), "c": ("const", x)}})]  # noqa: E731
    return W.Workload("fan_reducer", [
        W.St("A", tasks=[("t", {"kind": "ok", "out": {"a": ("const", 0)}})]),
        W.St("B", ("A",), tasks=mk("B", 1)), W.St("C", ("A",), tasks=mk("C", 2)), W.St("D", ("A",), tasks=mk("D", 5)),
        W.St("E", ("B", "C", "D"), reducers={"n": "sum", "c": "collect"},
             tasks=[("t", {"kind": "ok", "out": {"seen_n": ("ctx", "n"), "seen_c": ("ctx", "c")}})]),
    ])


W.fan_reducer = fan_reducer


class ReducerE2EMonitor(Monitor):
    name = "reducer"

    def step(self, ex, tr, ms):
        v = []
        for e in tr.ledger:
            if e["stage"] == "E":
                n, c = e["ctx"].get("n"), e["ctx"].get("c")
                if n != 8 or sorted(c or []) != [1, 2, 5]:
                    v.append({"kind": "fan-in-reducer-wrong", "n": n, "c": c, "expected": {"n": 8, "c": [1, 2, 5]},
                              "sig": "reducer-e2e"})
        return ms, v


def jobs(tier, seed):
    js = [{"label": "reducers|permutations", "reducers": 3 if tier == "quick" else 4}]
    js.append({"label": "fan_reducer|all-orders", "wl": wl("fan_reducer"), "budget": {}, "e2e": True})
    specs = [wl("chain3"), wl("diamond"), wl("own_ctx_diamond"), wl("own_ctx_mixed"), wl("jump_partial_outputs", 1),
             wl("jump_partial_outputs", 2), wl("jump_self_partial", 2), wl("jump_sibling_fanin", 1), wl("jump_sibling_fanin", 2), wl("fan3"), wl("multitask"), wl("diamond_multitask"),
             wl("jump_self", 2), wl("jump_cycle", 2, 2), wl("jump_cycle", 3, 2), wl("jump_cycle", 4, 1),
             wl("jump_side_fanin", 2), wl("jump_forward_diamond", 1), wl("continue_on_fail"), wl("skip_stage")]
    for spec in specs:
        js.append({"label": f"{spec[0]}{spec[1]}|all-orders", "wl": spec, "budget": {}})
    for n in (2, 3, 4):
        for idx in range(len(W.dag_shapes(n))):
            js.append({"label": f"dag[{n},{idx}]|all-orders", "wl": wl("dag_workload", n, idx), "budget": {}})
    # every loop body on 3-4 stages (single-root/single-sink DAGs, the sink jumping to the root once; both declaration
    # orders): after the loop, and inside it, every stage sees the values of the CURRENT iteration
    for n in (3, 4):
        for idx in range(len(W.loop_body_shapes(n))):
            for order in ("fwd", "rev"):
                js.append({"label": f"loop body{n}#{idx} {order}|all-orders", "wl": wl("jump_dag_loop", n, idx, 1, None, order),
                           "budget": {}})
    if tier == "thorough":
        for spec in specs:
            js.append({"label": f"{spec[0]}{spec[1]}|noack1", "wl": spec, "budget": {"noack": 1}, "max_states": 400000})
    return js


def build(job):
    w = world()
    workload = make_workload(job["wl"])
    mons = [ReducerE2EMonitor()] if job.get("e2e") else [DataflowMonitor(workload)]
    return Explorer(w, workload, mons, job.get("budget"), max_states=job.get("max_states", 200000),
                    time_cap=job.get("time_cap", 600))


def run_job(job):
    if "reducers" in job:
        r = reducer_permutations(job["reducers"])
        r["job_spec"] = job
        return r
    ex = build(job).run()
    res = result_from(ex, "e1")
    res["job_spec"] = job
    return res


def aggregate(results, tier, seed, pre):
    red = [r for r in results if "reducer_evaluations" in r]
    return aggregate_e1(results, tier, seed, pre, extra_cov={
        "reducer_permutation_evaluations": sum(r["reducer_evaluations"] for r in red),
        "reducer_samples": [s for r in red for s in r.get("reducer_samples", [])][:2]})


def replay(payload):
    job = payload["job"]
    if "reducers" in job:
        return {"violations": reducer_permutations(job["reducers"])["violations"]}
    ex = build(job)
    out, viols, st = ex.replay(payload["violation"]["trace"])
    return {"steps": out, "violations": viols, "final_outcome": st.view.outcome()}
