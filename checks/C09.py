"""C09 - a message whose handling committed is never handled again, even after restart (E1 + E4)."""

from __future__ import annotations

import itertools

from vlib.e1 import Explorer, Monitor
from vlib.e1jobs import aggregate_e1, make_workload, result_from, wl, world

PROPERTY = "C09"


class DedupMonitor(Monitor):
    """If the delivered row id is in processed_messages in the pre-state, no handler runs and no task executes."""

    name = "dedup"

    def __init__(self):
        self.redeliveries = 0

    def step(self, ex, tr, ms):
        v = []
        if tr.msg is None:
            return ms, v
        rid = str(tr.msg.message_id)
        was = any(str(m["id"]) == rid and m["processed"] for m in tr.pre.queue)
        if was:
            self.redeliveries += 1
            if tr.calls or tr.ledger:
                v.append({"kind": "processed-message-handled-again", "message": tr.mlabel, "handlers": [c[0] for c in tr.calls],
                          "tasks_executed": [f"{e['stage']}#{e['task']}" for e in tr.ledger],
                          "sig": f"handled-again:{type(tr.msg).__name__}"})
            if tr.exc is None and any(str(m["id"]) == rid for m in tr.post.queue) and tr.action.startswith("d:"):
                v.append({"kind": "duplicate-not-acknowledged", "message": tr.mlabel, "sig": "dup-not-acked"})
        return ms, v


def filter_sequences(depth, caps):
    """E4 on the real BloomDeduplicator: every op sequence up to depth."""
    from stabilize.queue.dedup import BloomDeduplicator

    ids = [f"m{i}" for i in range(6)]
    ops = [("mark", i) for i in ids] + [("hydrate", s) for s in ([], ids[:2], ids[2:5], ids)] + [("reset", None)]
    evals, viols, samples = 0, [], []
    for cap in caps:
        for d in range(1, depth + 1):
            for seq in itertools.product(range(len(ops)), repeat=d):
                f = BloomDeduplicator(expected_items=cap)
                told, auth = set(), False
                ok = True
                for oi in seq:
                    op, arg = ops[oi]
                    if op == "mark":
                        f.mark_seen(arg)
                        told.add(arg)
                    elif op == "hydrate":
                        f.hydrate(list(arg))
                        told.update(arg)
                        auth = True
                    else:
                        f.reset()
                        told, auth = set(), False
                    for x in told:
                        if not f.maybe_seen(x):
                            ok = False
                            viols.append({"kind": "filter-false-negative", "id": x, "capacity": cap,
                                          "ops": [ops[i][0] for i in seq], "sig": "filter-false-negative",
                                          "signature": "e4:filter-false-negative", "trace": [str(ops[i]) for i in seq]})
                    if f.authoritative != auth:
                        ok = False
                        viols.append({"kind": "filter-authority-wrong", "is": f.authoritative, "expected": auth,
                                      "capacity": cap, "sig": "filter-authority", "signature": "e4:filter-authority",
                                      "trace": [str(ops[i]) for i in seq]})
                    if not ok:
                        break
                evals += 1
                if len(samples) < 2 and d == depth:
                    samples.append([str(ops[i]) for i in seq])
    out, seen = [], set()
    for v in viols:
        if v["signature"] not in seen:
            seen.add(v["signature"])
            out.append(v)
    return {"states": evals, "transitions": evals, "violations": out, "samples": [], "filter_sequences": evals,
            "filter_samples": samples}


WLS = [wl("chain3"), wl("diamond"), wl("multitask"), wl("poll", 1), wl("transient", 1, True), wl("fail_mid"),
       wl("jump_cycle", 2, 1), wl("synthetic")]


def jobs(tier, seed):
    js = [{"label": "filter|op-sequences", "filter_depth": 4 if tier == "quick" else 5,
           "caps": [1, 2, 3, 8] if tier == "quick" else [1, 2, 3, 4, 5, 6, 7, 8]}]
    for spec in WLS:
        heavy = spec[0] in ("diamond", "synthetic")
        b = {"noack": 1, "restart": 1, "rotate": 1}
        js.append({"label": f"{spec[0]}{spec[1]}|trust=off|noack1,restart1,rotate1", "wl": spec,
                   "budget": {"noack": 1} if heavy and tier == "quick" else b, "trust": False})
        if not heavy or tier != "quick":
            js.append({"label": f"{spec[0]}{spec[1]}|trust=on|noack1,restart1,rotate1", "wl": spec, "budget": b, "trust": True})
    if tier == "thorough":
        for spec in WLS:
            js.append({"label": f"{spec[0]}{spec[1]}|trust=off|noack2,restart1", "wl": spec,
                       "budget": {"noack": 2, "restart": 1}, "trust": False, "max_states": 400000})
            js.append({"label": f"{spec[0]}{spec[1]}|trust=on|noack2,restart1", "wl": spec,
                       "budget": {"noack": 2, "restart": 1}, "trust": True, "max_states": 400000})
    return js


def build(job):
    w = world()
    workload = make_workload(job["wl"])
    mon = DedupMonitor()
    ex = Explorer(w, workload, [mon], job.get("budget"), trust_negative=job["trust"], late_restart=True,
                  max_states=job.get("max_states", 200000), time_cap=job.get("time_cap", 600))
    ex._mon = mon
    return ex


def run_job(job):
    if "filter_depth" in job:
        r = filter_sequences(job["filter_depth"], job["caps"])
        r["job_spec"] = job
        return r
    ex = build(job).run()
    res = result_from(ex, "e1", {"redeliveries_of_processed_messages": ex._mon.redeliveries})
    res["job_spec"] = job
    return res


def aggregate(results, tier, seed, pre):
    good = [r for r in results if "harness_error" not in r]
    return aggregate_e1(results, tier, seed, pre, extra_cov={
        "redeliveries_of_processed_messages": sum(r.get("redeliveries_of_processed_messages", 0) for r in good),
        "filter_op_sequences": sum(r.get("filter_sequences", 0) for r in good),
        "filter_samples": [s for r in good for s in r.get("filter_samples", [])][:2]})


def replay(payload):
    job = payload["job"]
    if "filter_depth" in job:
        return {"violations": filter_sequences(job["filter_depth"], job["caps"])["violations"]}
    ex = build(job)
    out, viols, st = ex.replay(payload["violation"]["trace"])
    return {"steps": out, "violations": viols, "final_outcome": st.view.outcome()}
