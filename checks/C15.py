"""C15 - jump loops are bounded and always terminate (E1)."""

from __future__ import annotations

from vlib.e1 import Explorer, Monitor
from vlib.e1jobs import aggregate_e1, make_workload, result_from, wl, world
from vlib.monitors import COMPLETE, diagnose

PROPERTY = "C15"
DEFAULT_MAX = 10


def rearm_set(workload, target):
    """Reference: least set containing the target and closed under 'all requisites in the set'."""
    s = {target}
    changed = True
    while changed:
        changed = False
        for st in workload.stages:
            if st.ref not in s and st.deps and all(d in s for d in st.deps):
                s.add(st.ref)
                changed = True
    return s


class JumpMonitor(Monitor):
    name = "jump"

    def __init__(self, workload, source, target, requested, limit, forward=False):
        self.wl, self.source, self.target, self.requested, self.limit, self.forward = (
            workload, source, target, requested, limit, forward)
        self.rearm = rearm_set(workload, target)
        self.jumps = min(requested, limit)

    def init(self, ex):
        return {"tot": {}, "arm": {}}

    def step(self, ex, tr, ms):
        tot, arm = dict(ms["tot"]), dict(ms["arm"])
        v = []
        for (_s, tbl, ident, old, new) in tr.audit:
            if tbl == "S" and new == "NOT_STARTED" and old is not None:
                lab = tr.post.labels.get(ident, ident)
                arm[lab] = 0
        for e in tr.ledger:
            s = e["stage"]
            tot[s] = tot.get(s, 0) + 1
            arm[s] = arm.get(s, 0) + 1
            if arm[s] > 1:
                v.append({"kind": "stage-ran-twice-in-one-iteration", "stage": s, "sig": "ran-twice-in-iteration"})
            body = s in self.rearm and (s == self.source or s in self.wl.ancestors(self.source))
            bound = (self.jumps + 1) if body else 1
            if tot[s] > bound:
                v.append({"kind": "stage-ran-more-than-iterations", "stage": s, "runs": tot[s], "bound": bound,
                          "requested": self.requested, "limit": self.limit, "sig": "ran-more-than-iterations"})
        return {"tot": tot, "arm": arm}, v

    def final(self, ex, view, ms, state):
        v = []
        wf = view.wf["status"]
        tot = ms["tot"]
        if wf not in COMPLETE:
            return [{"kind": "loop-did-not-terminate", "wf": wf, "sig": "not-terminated:" + diagnose(view)}]
        over = self.requested > self.limit
        src = view.stages[self.source]
        if over:
            if src["status"] != "TERMINAL" or wf != "TERMINAL":
                v.append({"kind": "limit-reached-but-not-failed", "source": src["status"], "wf": wf,
                          "sig": "limit-not-failed"})
        else:
            if wf != "SUCCEEDED":
                v.append({"kind": "loop-within-limit-did-not-succeed", "wf": wf, "sig": "within-limit-not-succeeded"})
        if self.forward:
            if self.jumps >= 1:
                for st in self.wl.stages:
                    between = st.ref not in (self.source, self.target) and st.ref not in self.wl.descendants(self.target) \
                        and self.source in self.wl.ancestors(st.ref)
                    if between:
                        if view.stages[st.ref]["status"] != "SKIPPED" or tot.get(st.ref, 0):
                            v.append({"kind": "bypassed-stage-not-skipped", "stage": st.ref,
                                      "status": view.stages[st.ref]["status"], "runs": tot.get(st.ref, 0),
                                      "sig": "bypassed-not-skipped"})
            return v
        exp_runs = self.jumps + 1
        for st in self.wl.stages:
            r = st.ref
            body = r in self.rearm and (r == self.source or r in self.wl.ancestors(self.source))
            if body:
                want = exp_runs  # target .. source: once per iteration
            elif self.source in self.wl.ancestors(r):
                want = 0 if over else 1  # downstream of the jumping stage: only after the loop ends
            else:
                want = 1
            if over and not body and self.source not in self.wl.ancestors(r) and r not in self.wl.ancestors(self.source):
                # a branch parallel to the failing loop may be cancelled before or after it ran
                if tot.get(r, 0) <= 1:
                    continue
            if tot.get(r, 0) != want:
                v.append({"kind": "wrong-number-of-runs", "stage": r, "runs": tot.get(r, 0), "expected": want,
                          "jumps": self.jumps, "rearm_set": sorted(self.rearm), "sig": f"runs-differ:{'rearm' if r in self.rearm else 'other'}"})
        jc = view.stages[self.target]["ctx"].get("_jump_count", 0)
        if jc != self.jumps:
            v.append({"kind": "jump-count-differs", "recorded": jc, "expected": self.jumps, "sig": "jump-count"})
        return v


SHAPES = {
    # name: (factory args builder, source, target, forward)
    "self": (lambda t, m, lvl: wl("jump_self", t, m, lvl), "A", "A", False),
    "cycle2": (lambda t, m, lvl: wl("jump_cycle", 2, t, m, lvl), "B", "A", False),
    "cycle3": (lambda t, m, lvl: wl("jump_cycle", 3, t, m, lvl), "C", "A", False),
    "cycle4": (lambda t, m, lvl: wl("jump_cycle", 4, t, m, lvl), "D", "A", False),
    "side_fanin": (lambda t, m, lvl: wl("jump_side_fanin", t, m), "C", "A", False),
}


def jobs(tier, seed):
    js = []
    for shape, (mk, src, tgt, fwd) in SHAPES.items():
        for m in (0, 1, 2, 3, None):
            limit = DEFAULT_MAX if m is None else m
            levels = ("wf", "stage") if shape in ("self", "cycle2") and m is not None else ("wf",)
            for lvl in levels:
                for t in range(0, limit + 3):
                    if m is None and t not in (0, 1, 2, limit - 1, limit, limit + 1, limit + 2):
                        continue
                    if tier == "quick" and shape in ("cycle4", "side_fanin") and m is None and t > 2:
                        continue
                    js.append({"label": f"{shape} requested={t} max={m}@{lvl}", "wl": mk(t, m, lvl), "source": src,
                               "target": tgt, "requested": t, "limit": limit, "forward": fwd, "budget": {}})
    for t in (0, 1, 2):
        js.append({"label": f"forward requested={t}", "wl": wl("jump_forward_diamond", t), "source": "A", "target": "E",
                   "requested": t, "limit": DEFAULT_MAX, "forward": True, "budget": {}})
    # every loop body: all single-root/single-sink DAGs on 3..5 stages (6 in thorough), the sink jumping to the
    # root; both declaration orders (which arm of an uneven fan-in is declared first matters to a traversal)
    from vlib.workloads import loop_body_shapes

    for n in (3, 4, 5, 6) if tier == "thorough" else (3, 4, 5):
        shapes = loop_body_shapes(n)
        for idx in range(len(shapes)):
            if n == 6 and idx % 32 != seed % 32:
                continue  # 1960 bodies: VERIF_SEED selects which thirty-second is explored (each exhaustively)
            for order in ("fwd", "rev") if n < 6 else ("fwd",):
                for t, m in ((1, None), (2, 1)) if ((tier == "thorough" and n < 6) or n < 5) else ((1, None),):
                    limit = DEFAULT_MAX if m is None else m
                    # quick: the 98 five-stage bodies in delivery order only (all orders for 3 and 4 stages);
                    # thorough: all orders for one requested jump, delivery order for the two-jump variant
                    fifo = (tier != "thorough" and n >= 5) or (tier == "thorough" and n >= 5 and t == 2)
                    js.append({"label": f"body{n}#{idx} {order} requested={t} max={m}" + ("|in-order" if fifo else ""),
                               "wl": wl("jump_dag_loop", n, idx, t, m, order), "source": shapes[idx][2], "fifo": fifo,
                               "target": shapes[idx][1], "requested": t, "limit": limit, "forward": False, "budget": {}})
    # a worker death at any point of any delivery (claim / before the processed mark / before the ack) on the small loops
    for shape in ("self", "cycle2"):
        mk, src, tgt, fwd = SHAPES[shape]
        for t, m in ((1, None), (2, 2), (3, 2)):
            limit = DEFAULT_MAX if m is None else m
            js.append({"label": f"{shape} requested={t} max={m}@wf|worker-death1", "wl": mk(t, m, "wf"), "source": src,
                       "target": tgt, "requested": t, "limit": limit, "forward": fwd, "budget": {"noack": 1},
                       "max_states": 400000})
    if tier == "thorough":
        more = []
        for j in js:
            if j["requested"] <= 3 and not j["label"].startswith("body") and "worker-death" not in j["label"]:
                more.append(dict(j, label=j["label"] + "|noack1", budget={"noack": 1}, max_states=400000))
                more.append(dict(j, label=j["label"] + "|sweep1", budget={"sweep": 1}))
        js += more
    js.sort(key=lambda j: -j["requested"])
    return js


def build(job):
    w = world()
    workload = make_workload(job["wl"])
    mon = JumpMonitor(workload, job["source"], job["target"], job["requested"], job["limit"], job["forward"])
    flt = None
    if job.get("fifo"):
        def flt(st, a):
            if not a[0].startswith("d:"):
                return True
            ready = [m["id"] for m in st.view.queue if m["elig"] == "ready"]
            return a[1] == min(ready)
    return Explorer(w, workload, [mon], job.get("budget"), max_states=job.get("max_states", 200000),
                    time_cap=job.get("time_cap", 600), actions_filter=flt)


def run_job(job):
    ex = build(job).run()
    res = result_from(ex, "e1")
    res["job_spec"] = job
    return res


def aggregate(results, tier, seed, pre):
    return aggregate_e1(results, tier, seed, pre)


def replay(payload):
    ex = build(payload["job"])
    out, viols, st = ex.replay(payload["violation"]["trace"])
    return {"steps": out, "violations": viols, "final_outcome": st.view.outcome()}
