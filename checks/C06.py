"""C06 - completed is final; every durable status change is a legal transition.

Quick: every audit row of every transition of an E1 exploration over all
workload classes (delivery orders x lost acks x cancel x sweeps).
Thorough: adds the crash runs of E2 and the interleavings of E3 (their audit
rows are checked with the same oracle; see checks/C01.py, C04.py, C07.py which
call check_audit_rows as well).
"""

from __future__ import annotations

from vlib.e1 import Explorer
from vlib.e1jobs import aggregate_e1, make_workload, result_from, wl, world
from vlib.monitors import LegalTransitionMonitor

PROPERTY = "C06"

SMALL = [
    wl("chain3"), wl("diamond"), wl("multitask"), wl("fail_mid"), wl("raise_mid"), wl("continue_on_fail"),
    wl("skip_stage"), wl("poll", 1), wl("transient", 1, True), wl("or_split_join"), wl("synthetic"), wl("synthetic_raise"), wl("synthetic2_failpre"), wl("declared_after_fc"), wl("synthetic2_multitask"),
    wl("synthetic", True), wl("suspend_gate"), wl("jump_self", 1), wl("jump_cycle", 2, 2),
    wl("jump_forward_diamond", 1), wl("mutex2"), wl("choice2"), wl("jump_self", 3, 1), wl("jump_cycle", 2, 3, 1),
    wl("jump_forward_multitask", 1), wl("multitask_fail", 0), wl("multitask_fail", 1),
]
BIG = [wl("fail_branch"), wl("first_of"), wl("quorum"), wl("multi_merge"), wl("jump_side_fanin", 1), wl("choice3")]
CANCEL = [wl("diamond"), wl("multitask"), wl("synthetic"), wl("poll", 1), wl("suspend_gate"), wl("jump_cycle", 2, 1),
          wl("jump_forward_diamond", 1), wl("jump_forward_multitask", 1)]


def jobs(tier, seed):
    js = [{"label": "table-drift", "drift": True}]
    for name in E3_SCEN:
        bound = 1 if tier == "quick" else 2
        shards = 1 if bound == 1 else 4
        for k in range(shards):
            js.append({"label": f"e3 {name}|preemptions<={bound}|shard{k}/{shards}", "scenario": name, "bound": bound,
                       "shard": [k, shards]})
    # operator pause / resume / cancel interleaved with the run: two parallel stages parked PAUSED, resumed, cancelled
    for spec in [wl("dag_workload", 2, 0), wl("chain3")]:
        js.append({"label": f"{spec[0]}{spec[1]}|pause1,unpause1,cancel1", "wl": spec,
                   "budget": {"pause": 1, "unpause": 1, "cancel": 1}, "max_states": 400000})
    for spec in [wl("chain3"), wl("multitask"), wl("fail_mid"), wl("poll", 1)]:
        js.append({"label": f"{spec[0]}{spec[1]}|pause1,unpause1", "wl": spec, "budget": {"pause": 1, "unpause": 1}})
    js.append({"label": "region_diamond|cancel-region-anywhere", "wl": wl("region_diamond"), "budget": {"cancelregion": 1}})
    js.append({"label": "milestone2|all-orders,noack1", "wl": wl("milestone2"), "budget": {"noack": 1}})
    for spec in [wl("chain3"), wl("fail_mid"), wl("continue_on_fail")]:
        js.append({"label": f"{spec[0]}{spec[1]}|oprestart1", "wl": spec, "budget": {"oprestart": 1}})
    if tier == "quick":
        for spec in SMALL:
            js.append({"label": f"{spec[0]}{spec[1]}|noack1", "wl": spec, "budget": {"noack": 1}})
        for spec in BIG:
            js.append({"label": f"{spec[0]}{spec[1]}|all-orders", "wl": spec, "budget": {}})
        for spec in CANCEL:
            js.append({"label": f"{spec[0]}{spec[1]}|cancel1", "wl": spec, "budget": {"cancel": 1}})
        for spec in [wl("diamond"), wl("multitask"), wl("jump_cycle", 2, 1)]:
            js.append({"label": f"{spec[0]}{spec[1]}|sweep1", "wl": spec, "budget": {"sweep": 1}})
        for spec in [wl("diamond"), wl("fail_mid"), wl("jump_cycle", 2, 1), wl("synthetic")]:
            js.append({"label": f"{spec[0]}{spec[1]}|crash-recovery audit rows", "wl": spec, "crash": True})
    else:
        for spec in SMALL + BIG:
            js.append({"label": f"{spec[0]}{spec[1]}|noack1,sweep1", "wl": spec, "budget": {"noack": 1, "sweep": 1},
                       "max_states": 300000})
        for spec in CANCEL:
            js.append({"label": f"{spec[0]}{spec[1]}|cancel1,noack1", "wl": spec, "budget": {"cancel": 1, "noack": 1}})
        for spec in SMALL:
            js.append({"label": f"{spec[0]}{spec[1]}|spurious1,early1", "wl": spec, "budget": {"spurious": 1, "early": 1}})
        for spec in SMALL + BIG:
            js.append({"label": f"{spec[0]}{spec[1]}|crash-recovery audit rows", "wl": spec, "crash": True})
        for spec in [wl("dag_workload", 2, 0), wl("fail_mid")]:
            js.append({"label": f"{spec[0]}{spec[1]}|pause1,unpause1,cancel1,noack1", "wl": spec,
                       "budget": {"pause": 1, "unpause": 1, "cancel": 1, "noack": 1}, "max_states": 600000})
        for spec in [wl("diamond"), wl("multitask"), wl("jump_cycle", 2, 1)]:
            js.append({"label": f"{spec[0]}{spec[1]}|oprestart1,sweep1", "wl": spec, "budget": {"oprestart": 1, "sweep": 1},
                       "max_states": 400000})
    return js


def run_crash(job):
    """E2: every audit row written while recovering from every crash image."""
    from vlib.e2 import CrashEngine

    w = world()
    workload = make_workload(job["wl"])
    eng = CrashEngine(w, workload, monitors=[LegalTransitionMonitor()])
    _f, _l, snaps = eng.baseline()
    n = 0
    for s in snaps:
        for order in ("restart-first", "expire-first"):
            eng.recover(s, order)
            n += 1
    viols, seen = [], set()
    for v in eng.mon_violations:
        v["signature"] = f"e2:{v['sig']}"
        if v["signature"] not in seen:
            seen.add(v["signature"])
            viols.append(v)
    return {"states": len(snaps), "transitions": n, "violations": viols, "samples": [], "job_spec": job,
            "audit_rows": eng.audit_rows, "crash_points": len(snaps)}


E3_SCEN = {
    "2xStartStage(D)": ("diamond_e", [], ["StartStage:D"], [2, 2]),
    "CompleteStage(B)||CompleteStage(C)": ("diamond_e", [], ["CompleteStage:B", "CompleteStage:C", "StartStage:D"], [2, 2]),
    "CancelStage(C)||CompleteTask(C)": ("fail_branch_slow", [], ["CancelStage:C", "CompleteTask:C"], [1, 1]),
    "mutex StartStage(X)||StartStage(Y)": ("mutex2", [], ["StartStage:X", "StartStage:Y"], [1, 1]),
    # the workflow row has no version column: a handler writing back the row it read earlier is only caught here
    "CancelWorkflow||CompleteWorkflow": ("chain3", [], ["CompleteWorkflow", "CancelWorkflow"],
                                         [["CancelWorkflow"], ["CompleteWorkflow"]], ["cancel"]),
    "CancelWorkflow||StartWorkflow": ("chain3", [], ["StartWorkflow", "CancelWorkflow"],
                                      [["CancelWorkflow"], ["StartWorkflow"]], ["cancel"]),
    "CancelWorkflow||CompleteStage(C)+CompleteWorkflow": ("chain3", [], ["CompleteStage:C", "CancelWorkflow"],
                                                          [["CancelWorkflow"], 2], ["cancel"]),
}


def run_e3(job):
    """E3: every durable status change written by racing handlers (and by the drain after them)."""
    import checks.C04  # noqa: F401  registers diamond_e
    import checks.C07  # noqa: F401  registers fail_branch_slow
    from vlib.e3 import run_engine_scenario
    from vlib.monitors import check_audit_rows

    wname, args, skip, scripts, *rest = E3_SCEN[job["scenario"]]
    post = rest[0] if rest else []
    workload = make_workload(wl(wname, *args))

    def oracle(ctx):
        rows = [(0, r[0], r[1], r[2], r[3]) for r in ctx["audit"]]
        return check_audit_rows(rows, None, {})

    s = run_engine_scenario(workload, skip, scripts, oracle, job["bound"], shard=job.get("shard"),
                            time_cap=job.get("time_cap", 600), post_actions=post,
                            budget={a: 1 for a in post} if post else None)
    viols, seen = [], set()
    for v in s.pop("_violations"):
        v["signature"] = f"e3:{v['sig']}@{job['scenario']}"
        if v["signature"] not in seen:
            seen.add(v["signature"])
            viols.append(v)
    s["violations"] = viols
    s["job_spec"] = job
    s["states"] = s["transitions"] = s.get("points", 0)
    return s


def build(job):
    w = world()
    workload = make_workload(job["wl"])
    sigspec = None
    if job["wl"][0] == "suspend_gate":
        sigspec = [{"stage": "G", "persistent": True}]
        job = dict(job, budget=dict(job.get("budget") or {}, signal=1))
    return Explorer(w, workload, [LegalTransitionMonitor()], job.get("budget"), signal_spec=sigspec,
                    max_states=job.get("max_states", 150000), time_cap=job.get("time_cap", 600))


def run_job(job):
    if job.get("drift"):
        from vlib.monitors import table_drift

        d = table_drift()
        v = []
        if d is not None:
            v.append({"kind": "published-transition-table-changed", "live": d["live"], "sig": "table-drift",
                      "signature": "e1:table-drift", "trace": []})
        return {"states": 1, "transitions": 1, "violations": v, "samples": [], "job_spec": job}
    if job.get("crash"):
        return run_crash(job)
    if job.get("scenario"):
        return run_e3(job)
    ex = build(job).run()
    res = result_from(ex, "e1")
    res["job_spec"] = job
    return res


def preflight(tier, seed):
    from vlib.monitors import table_drift

    return {"pinned_table_matches_repository": table_drift() is None}


def aggregate(results, tier, seed, pre):
    return aggregate_e1(results, tier, seed, pre)


def replay(payload):
    ex = build(payload["job"])
    out, viols, st = ex.replay(payload["violation"]["trace"])
    return {"steps": out, "violations": viols, "final_outcome": st.view.outcome()}
