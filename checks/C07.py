"""C07 - concurrent writers never silently overwrite each other (E3)."""

from __future__ import annotations

from vlib import workloads as W
from vlib.e1jobs import make_workload, wl
from vlib.e3 import FileWorld, IlvExplorer, aggregate_e3, cleanup_dir, prepare, run_engine_scenario
from vlib.world import dumps

PROPERTY = "C07"

# ---------------------------------------------------------------- store-API writers
WRITER_SCENARIOS = {
    # name: (n writers, transactional, retry, modify task too)
    "plain x2": (2, False, False, True),
    "txn x2": (2, True, False, True),
    "plain x2 retry": (2, False, True, True),
    "txn x2 retry": (2, True, True, False),
    "mixed plain/txn x2": (2, None, False, True),
    "plain x3": (3, False, False, False),
    "txn x3 retry": (3, True, True, False),
}


def writer_job(job):
    n, txn, retry, with_task = WRITER_SCENARIOS[job["scenario"]]
    workload = W.multitask()
    prep = prepare(workload, ["StartStage", "StartWorkflow"])  # nothing delivered: pristine stored workflow
    stage_id = prep["view"].stage_ids["A"]
    stats = {"conflicts": 0, "successes": 0}

    def make_execution():
        from stabilize.errors import ConcurrencyError
        from stabilize.models.status import WorkflowStatus

        fw = FileWorld(prep["image"], prep["behaviours"], prep["task_names"])
        store = fw.w.store
        log = []

        def writer(i):
            def run():
                tries = 0
                while True:
                    tries += 1
                    s = store.retrieve_stage(stage_id)
                    read_v = s.version
                    s.context[f"w{i}"] = i
                    s.outputs[f"o{i}"] = i
                    if with_task:
                        s.tasks[i % len(s.tasks)].status = WorkflowStatus.RUNNING
                    use_txn = txn if txn is not None else (i % 2 == 1)
                    try:
                        if use_txn:
                            with store.transaction() as t:
                                t.store_stage(s)
                        else:
                            store.store_stage(s)
                        log.append((i, read_v, True, tries))
                        return
                    except ConcurrencyError:
                        log.append((i, read_v, False, tries))
                        c = fw.w.conn
                        if c.in_transaction:
                            log.append((i, read_v, "open-transaction-after-conflict", tries))
                            c.rollback()
                        if not retry or tries >= 6:
                            return
            return run

        def finish(sched):
            viols = []
            final = fw.w.store.retrieve_stage(stage_id)
            fw.close()
            ok = [(i, v) for (i, v, good, _t) in log if good is True]
            failed_final = {i for (i, v, good, _t) in log if good is False} - {i for i, _v in ok}
            stats["conflicts"] += sum(1 for e in log if e[2] is False)
            stats["successes"] += len(ok)
            versions = [v for _i, v in ok]
            if len(set(versions)) != len(versions):
                viols.append({"kind": "two-saves-based-on-the-same-version-both-succeeded", "versions": versions,
                              "sig": "same-version-both-succeeded"})
            for i, _v in ok:
                if final.context.get(f"w{i}") != i or final.outputs.get(f"o{i}") != i:
                    viols.append({"kind": "successful-write-lost", "writer": i, "context": {k: v for k, v in final.context.items() if k.startswith("w")},
                                  "sig": "lost-update:stage"})
                if with_task and final.tasks[i % len(final.tasks)].status.name != "RUNNING":
                    viols.append({"kind": "successful-task-write-lost", "writer": i, "sig": "lost-update:task"})
            for i in failed_final:
                if final.context.get(f"w{i}") == i or final.outputs.get(f"o{i}") == i:
                    viols.append({"kind": "failed-write-became-durable", "writer": i, "sig": "failed-write-visible"})
            if retry and failed_final:
                viols.append({"kind": "writer-never-succeeded-despite-retries", "writers": sorted(failed_final),
                              "sig": "retry-starved"})
            stats["open_txn_after_conflict"] = stats.get("open_txn_after_conflict", 0) + sum(
                1 for e in log if e[2] == "open-transaction-after-conflict")  # observed, not demanded by the property
            if final.version != len(ok):
                viols.append({"kind": "version-not-equal-to-number-of-successful-saves", "version": final.version,
                              "saves": len(ok), "sig": "version-count"})
            return viols, f"ok={sorted(i for i, _ in ok)}"

        return [writer(i) for i in range(n)], finish

    ex = IlvExplorer(make_execution, job["bound"], time_cap=job.get("time_cap", 600),
                     shard=tuple(job["shard"]) if job.get("shard") else None).run()
    cleanup_dir()
    s = ex.summary()
    s["stats"] = stats
    s["outcome_classes"] = dict(list(ex.outcomes.items())[:8])
    s["_violations"] = ex.violations
    s["samples"] = ex.samples[:1]
    return s


# ---------------------------------------------------------------- engine pairs
def gate_signal_first():
    return W.suspend_gate()


def oracle_signal(ctx):
    v = []
    final = ctx["final"]
    resumes = sum(1 for e in ctx["ledger"] if e["stage"] == "G" and e["step"] == "resumed")
    if final.wf["status"] != "SUCCEEDED" or resumes != 1:
        v.append({"kind": "signal-effect-lost-in-race", "wf": final.wf["status"], "gate": final.stages["G"]["status"],
                  "resumes": resumes, "buffer": final.stages["G"]["ctx"].get("_buffered_signals"),
                  "sig": f"signal-lost:gate={final.stages['G']['status']}"})
    return v


def oracle_signal_under_fault(ctx):
    """With an injected infrastructure fault the run may legitimately fail loudly (the engine turns a
    lock error inside RunTask into a task failure); what C07 forbids is the SILENT loss of the
    committed signal: it must have been consumed, or still be buffered."""
    v = []
    final = ctx["final"]
    g = final.stages["G"]
    resumes = sum(1 for e in ctx["ledger"] if e["stage"] == "G" and e["step"] == "resumed")
    buffered = g["ctx"].get("_buffered_signals") or []
    delivered = g["ctx"].get("_signal_name")
    if resumes == 0 and not buffered and not delivered:
        v.append({"kind": "committed-signal-silently-overwritten", "gate": g["status"], "wf": final.wf["status"],
                  "sig": f"signal-overwritten:gate={g['status']}"})
    if resumes > 1:
        v.append({"kind": "signal-consumed-twice", "resumes": resumes, "sig": "signal-twice"})
    return v


def oracle_branches(ctx):
    v = []
    final = ctx["final"]
    starts = [r for r in ctx["audit"] if r[0] == "S" and r[1] == "D" and r[2] == "NOT_STARTED" and r[3] == "RUNNING"]
    if len(starts) != 1:
        v.append({"kind": "join-started-%d-times" % len(starts), "sig": f"starts={len(starts)}"})
    race = ctx["view_after_race"].stages["D"]["ctx"].get("_completed_branches")
    done = [s for s in ("B", "C") if ctx["view_after_race"].stages[s]["status"] == "SUCCEEDED"]
    if ctx["view_after_race"].stages["D"]["status"] == "NOT_STARTED" or True:
        missing = [b for b in done if b not in (race or [])]
        if missing and ctx["view_after_race"].stages["D"]["status"] in ("NOT_STARTED",):
            v.append({"kind": "completed-branch-not-recorded", "recorded": race, "completed": done, "sig": "branch-lost"})
    if dumps(final.outcome()) not in ctx["ref"]["admissible"]:
        v.append({"kind": "outcome-differs-from-sequential", "observed": final.outcome(), "sig": "outcome-differs"})
    return v


def oracle_same_as_sequential(ctx):
    v = []
    if dumps(ctx["final"].outcome()) not in ctx["ref"]["admissible"]:
        v.append({"kind": "outcome-differs-from-sequential", "observed": ctx["final"].outcome(), "sig": "outcome-differs"})
    from vlib.monitors import check_quiescent

    for q in check_quiescent(ctx["final"]):
        v.append(q)
    return v


PAIR_WLS = [wl("diamond"), wl("first_of"), wl("quorum"), wl("fail_branch"), wl("synthetic2"), wl("mutex2"), wl("choice2"),
            wl("or_split_join")]
PAIR_WLS_MORE = [wl("multi_merge"), wl("diamond_multitask"), wl("jump_side_fanin", 1), wl("fan3"), wl("synthetic_gate")]

ENGINE = {
    # name: (workload spec, skip, setup actions, scripts, oracle)
    "SignalStage(persistent)||RunTask(suspends)": (wl("suspend_gate"), ["RunTask:G", "SignalStage"], ["signal:G:p"], [1, 1], oracle_signal),
    "SignalStage(persistent)||StartStage(G) claim": (wl("suspend_gate"), ["StartStage:G", "SignalStage"], ["signal:G:p"], [1, 1], oracle_signal),
    "SignalStage(persistent)||StartTask(G)": (wl("suspend_gate"), ["StartTask:G", "SignalStage"], ["signal:G:p"], [1, 1], oracle_signal),
    "quorum: CompleteStage(B)||CompleteStage(C) update _completed_branches": (
        wl("join_e", "N_OF_M", 2, 2), ["CompleteStage:B", "CompleteStage:C", "StartStage:D"], [], [1, 1], oracle_branches),
    "CancelStage(C)||CompleteTask(C)": (wl("fail_branch_slow"), ["CancelStage:C", "CompleteTask:C"], [], [1, 1], oracle_same_as_sequential),
}


def fail_branch_slow():
    """A -> (B fails, C two tasks) -> D: B's failure cancels C while C's task completion is pending."""
    return W.Workload("fail_branch_slow", [
        W.St("A"), W.St("B", ("A",), tasks=[("t", {"kind": "terminal"})]),
        W.St("C", ("A",), tasks=[("t1", {"kind": "ok"}), ("t2", {"kind": "ok"})]), W.St("D", ("B", "C"))], klass="racy")


W.fail_branch_slow = fail_branch_slow


def jobs(tier, seed):
    import checks.C04  # noqa: F401  (registers join_e)

    js = []
    for name, (n, _t, _r, _k) in WRITER_SCENARIOS.items():
        bound = (2 if n == 2 else 1) if tier == "quick" else (3 if n == 2 else 2)
        shards = 1 if bound <= 1 else (4 if bound == 2 else 16)
        for k in range(shards):
            js.append({"label": f"writers {name}|preemptions<={bound}|shard{k}/{shards}", "kind": "writers", "scenario": name,
                       "bound": bound, "shard": [k, shards]})
    for name in ENGINE:
        bound = 2 if tier == "quick" else 3
        shards = 4 if bound == 2 else 16
        for k in range(shards):
            js.append({"label": f"engine {name}|preemptions<={bound}|shard{k}/{shards}", "kind": "engine", "scenario": name,
                       "bound": bound, "shard": [k, shards]})
    # one injected lock fault inside the RunTask handler (statement k) while a SignalStage handler races it:
    # the handler's transaction rolls back and is retried with the same in-memory stage object
    ks = range(16, 64) if tier == "quick" else range(0, 96)
    for k in ks:
        js.append({"label": f"engine SignalStage(persistent)||RunTask(suspends) + lock fault at statement {k}|preemptions<=1",
                   "kind": "engine", "scenario": "SignalStage(persistent)||RunTask(suspends)", "bound": 1,
                   "fault": [0, k]})
    # every pair of messages that are ready together at any state of the in-order / newest-first run, one message per
    # worker thread: the result must be one that handling them one after the other can produce
    from vlib.pairs import pair_jobs

    if tier == "quick":
        js += pair_jobs(PAIR_WLS, 1)
    else:
        deep = [wl("diamond"), wl("first_of"), wl("mutex2"), wl("choice2")]
        js += pair_jobs(deep, 2) + pair_jobs([x for x in PAIR_WLS if x not in deep] + PAIR_WLS_MORE, 1)
    js.sort(key=lambda j: (-j["bound"], j["kind"]))
    return js


def run_job(job):
    import checks.C04  # noqa: F401

    if job["kind"] == "pairs":
        from vlib.pairs import pair_job

        return pair_job(job)
    if job["kind"] == "writers":
        s = writer_job(job)
    else:
        spec, skip, setup, scripts, oracle = ENGINE[job["scenario"]]
        if job.get("fault"):
            oracle = oracle_signal_under_fault
        workload = make_workload(spec)
        sigspec = [{"stage": "G", "persistent": True, "name": "go", "data": {"n": 1}}]
        s = run_engine_scenario_with_signal(workload, skip, scripts, oracle, job["bound"], job.get("shard"), setup, sigspec,
                                            job.get("time_cap", 600), fault=job.get("fault"))
    viols, seen = [], set()
    for v in s.pop("_violations"):
        v["signature"] = f"e3:{v['sig']}@{job['scenario']}"
        if v["signature"] not in seen:
            seen.add(v["signature"])
            viols.append(v)
    s["violations"] = viols
    s["job_spec"] = job
    return s


def run_engine_scenario_with_signal(workload, skip, scripts, oracle, bound, shard, setup, sigspec, time_cap, fault=None):
    # `prepare` uses an Explorer without signal budget; inject the signal by hand when requested
    from vlib import e3

    if not setup:
        return run_engine_scenario(workload, skip, scripts, oracle, bound, shard=shard, time_cap=time_cap, fault=fault)
    orig_prepare = e3.prepare

    def prepare_with_signal(workload_, skip_, *, events=False, setup_actions=(), max_steps=400):
        from vlib.e1 import Explorer
        from vlib.e1jobs import world
        from vlib.world import pack

        w = world(events=events)
        ex = Explorer(w, workload_, [], {"signal": 1}, signal_spec=sigspec)
        st = ex.initial()
        st.blob = pack(w.image())
        steps, sent = 0, False
        while steps < max_steps:
            acts = ex.enabled(st)
            deliver = [a for a in acts if a[0].startswith("d:") and not any(a[0][2:].startswith(s) for s in skip_)]
            if deliver:
                a = min(deliver, key=lambda a: a[1])
            elif not sent:
                a = [x for x in acts if x[0].startswith("signal:")][0]
                sent = True
            else:
                break
            tr, b = ex.apply(st, a)
            st, _ = ex.fold(st, tr, b)
            st.blob = pack(w.image())
            steps += 1
        ex.restore(st)
        w.drain_audit()
        return {"image": w.image(), "behaviours": dict(w.behaviours), "task_names": set(w.task_names), "view": st.view,
                "exec_counts": dict(w.exec_counts), "pending": [m["type"] for m in st.view.queue]}

    e3.prepare = prepare_with_signal
    try:
        return run_engine_scenario(workload, skip, scripts, oracle, bound, shard=shard, time_cap=time_cap, fault=fault)
    finally:
        e3.prepare = orig_prepare


def aggregate(results, tier, seed, pre):
    return aggregate_e3(results)


def replay(payload):
    r = run_job(payload["job"])
    return {"violations": [v for v in r["violations"] if v["signature"] == payload["violation"].get("signature")]}
