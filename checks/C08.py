"""C08 - queue: at-least-once delivery, one holder at a time, no message ever lost (E4 + E3 + E2)."""

from __future__ import annotations

import collections
import json
from datetime import timedelta

from vlib.e3 import FileWorld, IlvExplorer, aggregate_e3, cleanup_dir
from vlib.world import HOOKS, LATER, READY, World, dumps, pack, unpack

PROPERTY = "C08"
MAX_ATTEMPTS = 2
LIMITS = []  # per-row attempt limits seen by the last real_state() call (hidden state: must not be merged away)


def mk_world():
    w = World(monitors=True)
    w.max_attempts = MAX_ATTEMPTS
    w.create_schema()
    # the ':memory:' connection is per thread, shared by every World of this process: start from empty tables
    c = w.conn
    for t in ("queue_messages", "queue_messages_dlq", "processed_messages", "v_audit", "v_qlog"):
        c.execute(f"DELETE FROM {t}")
    c.commit()
    w.pristine = c.serialize()
    w.incarnate()
    return w


def real_state(w):
    c = w.conn
    q = []
    LIMITS.clear()
    for r in c.execute("SELECT id,payload,attempts,deliver_at,locked_until,max_attempts FROM queue_messages ORDER BY id"):
        tag = json.loads(r["payload"]).get("execution_id")
        st = "locked" if r["locked_until"] is not None else ("delayed" if r["deliver_at"] == LATER else "ready")
        q.append((tag, r["attempts"], st))
        LIMITS.append((tag, r["max_attempts"]))  # not part of the reference model, but part of the state identity
    d = [json.loads(r["payload"]).get("execution_id") for r in c.execute("SELECT payload FROM queue_messages_dlq ORDER BY id")]
    return sorted(q), sorted(d)


class Model:
    """Reference queue: a dict."""

    def __init__(self):
        self.q = {}  # tag -> [attempts, state]
        self.dlq = []
        self.acked = []

    def clone(self):
        m = Model()
        m.q = {k: list(v) for k, v in self.q.items()}
        m.dlq, m.acked = list(self.dlq), list(self.acked)
        return m

    def eligible(self):
        return [t for t, (a, s) in self.q.items() if s == "ready" and a < MAX_ATTEMPTS]

    def state(self):
        return sorted((t, a, s) for t, (a, s) in self.q.items()), sorted(self.dlq)


def op_sequences_job(job):
    """BFS over operation sequences on the real SqliteQueue, deduplicated on the real canonical state."""
    from stabilize.queue.messages import StartWorkflow

    depth = job["depth"]
    prefix = list(job.get("prefix") or [])
    w = mk_world()
    q = w.queue
    init_img = pack(w.image())
    tags = ["a", "b"]
    counter = {"n": 0}
    viols = []
    seen = set()
    # a state = (image, model, held: tag->Message object data, next tag index, trace)
    Node = collections.namedtuple("Node", "img model held nxt trace")
    frontier = collections.deque([Node(init_img, Model(), {}, 0, ())])
    transitions = 0
    states = 1
    samples = []

    def fresh_msg(tag):
        return StartWorkflow(execution_type="PIPELINE", execution_id=tag)

    def check(node_model, trace, op):
        rs = real_state(w)
        ms = node_model.state()
        if rs != ms:
            viols.append({"kind": "queue-differs-from-reference-model", "op": op, "real": rs, "model": ms,
                          "sig": f"model-mismatch:{op.split(':')[0]}", "trace": list(trace) + [op]})
            return False
        # conservation from the trigger ledger
        audit, qlog = w.drain_audit()
        return True

    while frontier:
        node = frontier.popleft()
        if len(node.trace) >= depth + len(prefix):
            if len(samples) < 2:
                samples.append(list(node.trace))
            continue
        ops = []
        if node.nxt < 3:
            ops.append("push")
            ops.append("push_txn")
        ops.append("poll")
        for t in sorted(node.held):
            ops += [f"ack:{t}", f"reschedule:{t}", f"extend:{t}", f"move_to_dlq:{t}"]
        if any(s == "locked" for _a, s in node.model.q.values()):
            ops.append("expire")
        if any(s == "delayed" for _a, s in node.model.q.values()):
            ops.append("advance")
        ops.append("sweep")
        if node.model.dlq:
            ops.append("replay_dlq")
        if len(node.trace) < len(prefix):
            ops = [prefix[len(node.trace)]]  # a non-initial start state, reached through the same machinery
        for op in ops:
            w.load(unpack(node.img))
            q._pending.clear()
            m = node.model.clone()
            held = dict(node.held)
            nxt = node.nxt
            ok = True
            kind = op.split(":")[0]
            if kind in ("push", "push_txn"):
                tag = f"{tags[nxt % 2]}{nxt}"
                nxt += 1
                if kind == "push":
                    q.push(fresh_msg(tag))
                else:
                    with w.store.transaction(q) as txn:
                        txn.push_message(fresh_msg(tag))
                m.q[tag] = [0, "ready"]
            elif kind == "poll":
                got = q.poll_one()
                el = m.eligible()
                if got is None:
                    if el:
                        viols.append({"kind": "poll-returned-nothing-although-a-message-is-deliverable", "eligible": el,
                                      "sig": "poll-missed", "trace": list(node.trace) + [op]})
                        ok = False
                else:
                    tag = got.execution_id
                    if tag not in el:
                        viols.append({"kind": "poll-returned-held-or-ineligible-message", "tag": tag,
                                      "model": m.q.get(tag), "sig": "poll-ineligible", "trace": list(node.trace) + [op]})
                        ok = False
                    else:
                        m.q[tag][0] += 1
                        m.q[tag][1] = "locked"
                        held[tag] = got.message_id
            elif kind in ("ack", "reschedule", "extend", "move_to_dlq"):
                tag = op.split(":")[1]
                msg = fresh_msg(tag)
                msg.message_id = held[tag]
                present = tag in m.q
                if kind == "ack":
                    q.ack(msg)
                    if present:
                        del m.q[tag]
                        m.acked.append(tag)
                    held.pop(tag, None)
                elif kind == "reschedule":
                    q.reschedule(msg, timedelta(seconds=15))
                    if present:
                        m.q[tag][1] = "delayed"
                    held.pop(tag, None)
                elif kind == "extend":
                    r = q.extend_lock(msg)
                    if present:
                        m.q[tag][1] = "locked"
                    if r != present:
                        viols.append({"kind": "extend-lock-result-wrong", "sig": "extend-result", "trace": list(node.trace) + [op]})
                else:
                    q.move_to_dlq(held[tag], "test")
                    if present:
                        del m.q[tag]
                        m.dlq.append(tag)
                    held.pop(tag, None)
            elif kind == "expire":
                w.expire()
                for t in m.q:
                    if m.q[t][1] == "locked":
                        m.q[t][1] = "ready"
            elif kind == "advance":
                w.advance()
                for t in m.q:
                    if m.q[t][1] == "delayed":
                        m.q[t][1] = "ready"
            elif kind == "sweep":
                q.check_and_move_expired()
                for t in [t for t, (a, _s) in m.q.items() if a >= MAX_ATTEMPTS]:
                    del m.q[t]
                    m.dlq.append(t)
                    held.pop(t, None)
            elif kind == "replay_dlq":
                row = w.conn.execute("SELECT id, payload, message_type FROM queue_messages_dlq ORDER BY id LIMIT 1").fetchone()
                before = (row["message_type"], json.loads(row["payload"]))
                okr = q.replay_dlq(row["id"])
                tag = before[1]["execution_id"]
                m.dlq.remove(tag)
                m.q[tag] = [0, "ready"]
                after = w.conn.execute("SELECT message_type, payload FROM queue_messages WHERE json_extract(payload,'$.execution_id')=?", (tag,)).fetchone()
                if not okr or after is None or (after["message_type"], json.loads(after["payload"])) != before:
                    viols.append({"kind": "replayed-message-changed", "sig": "replay-changed", "trace": list(node.trace) + [op]})
            w.normalise_time()
            transitions += 1
            if ok:
                ok = check(m, node.trace, op)
            # conservation: every pushed tag is in exactly one place
            where = collections.Counter()
            rs = real_state(w)
            for (t, _a, _s) in rs[0]:
                where[t] += 1
            for t in rs[1]:
                where[t] += 1
            for t in m.acked:
                where[t] += 1
            pushed = [f"{tags[i % 2]}{i}" for i in range(nxt)]
            bad = {t: where[t] for t in pushed if where[t] != 1}
            if bad:
                viols.append({"kind": "message-not-in-exactly-one-place", "counts": bad, "sig": "conservation",
                              "trace": list(node.trace) + [op]})
                ok = False
            if not ok:
                continue
            key = dumps([rs, sorted(LIMITS), sorted(held), nxt, sorted(m.acked)])
            if key in seen:
                continue
            seen.add(key)
            states += 1
            frontier.append(Node(pack(w.image()), m, held, nxt, node.trace + (op,)))
    out, sg = [], set()
    for v in viols:
        v["signature"] = "e4:" + v["sig"]
        if v["signature"] not in sg:
            sg.add(v["signature"])
            out.append(v)
    return {"states": states, "transitions": transitions, "violations": out, "samples": samples, "executions": 0, "points": 0,
            "job_spec": job, "depth": depth}


# ------------------------------------------------------------------ E3: concurrent pollers
def pollers_job(job):
    from stabilize.queue.messages import StartWorkflow

    n_workers, n_msgs, tries = job["workers"], job["msgs"], job["tries"]
    w0 = mk_world()
    for i in range(n_msgs):
        w0.queue.push(StartWorkflow(execution_type="PIPELINE", execution_id=f"m{i}"))
    w0.normalise_time()
    w0.drain_audit()
    img = w0.image()
    stats = {"lost_races": 0}

    def make_execution():
        fw = FileWorld(img, {}, set())
        fw.w.queue.max_attempts = MAX_ATTEMPTS
        got = [[] for _ in range(n_workers)]

        def poller(i):
            def run():
                for _ in range(tries):
                    m = fw.w.queue.poll_one()
                    if m is None:
                        stats["lost_races"] += 1
                    else:
                        got[i].append(m.execution_id)
            return run

        def finish(sched):
            viols = []
            flat = [t for g in got for t in g]
            dup = [t for t, n in collections.Counter(flat).items() if n > 1]
            if dup:
                viols.append({"kind": "message-claimed-by-two-workers-while-locked", "tags": dup, "by": got, "sig": "double-claim"})
            # nothing skipped forever: whatever nobody got is still deliverable now
            rest = []
            while True:
                m = fw.w.queue.poll_one()
                if m is None:
                    break
                rest.append(m.execution_id)
            c = fw.w.conn
            rows = c.execute("SELECT COUNT(*) FROM queue_messages").fetchone()[0]
            fw.close()
            if sorted(flat + rest) != sorted(f"m{i}" for i in range(n_msgs)) and not dup:
                viols.append({"kind": "message-lost-or-duplicated-after-race", "claimed": flat, "later": rest, "sig": "lost-after-race"})
            if rows != n_msgs:
                viols.append({"kind": "queue-row-count-changed", "rows": rows, "sig": "rows-changed"})
            return viols, f"claimed={len(flat)}"

        return [poller(i) for i in range(n_workers)], finish

    ex = IlvExplorer(make_execution, job["bound"], time_cap=job.get("time_cap", 600),
                     shard=tuple(job["shard"]) if job.get("shard") else None).run()
    cleanup_dir()
    s = ex.summary()
    s["stats"] = stats
    s["outcome_classes"] = dict(list(ex.outcomes.items())[:6])
    viols, seen = [], set()
    for v in ex.violations:
        v["signature"] = f"e3:{v['sig']}@pollers{n_workers}x{n_msgs}"
        if v["signature"] not in seen:
            seen.add(v["signature"])
            viols.append(v)
    s["violations"] = viols
    s["samples"] = ex.samples[:1]
    s["job_spec"] = job
    return s


# ------------------------------------------------------------------ E2: crash inside DLQ moves / reschedule
def crash_job(job):
    from stabilize.queue.messages import StartWorkflow

    w = mk_world()
    q = w.queue
    viols, images = [], 0
    snaps = []

    def on_commit(conn):
        snaps.append(pack(conn.serialize()))

    def tags_everywhere(conn_world):
        rs = real_state(conn_world)
        c = collections.Counter([t for (t, _a, _s) in rs[0]] + list(rs[1]))
        return c

    def scenario(name, fn, pushed):
        nonlocal images
        snaps.clear()
        HOOKS.on_commit = on_commit
        try:
            fn()
        finally:
            HOOKS.on_commit = None
        for k, img in enumerate(list(snaps)):
            w.load(unpack(img))
            images += 1
            c = tags_everywhere(w)
            bad = {t: c[t] for t in pushed if c[t] != 1}
            if bad:
                viols.append({"kind": "message-not-in-exactly-one-place-at-crash-image", "scenario": name, "commit": k,
                              "counts": bad, "sig": f"conservation@{name}", "signature": f"e2:conservation@{name}",
                              "trace": [name, k]})

    def setup(n, attempts):
        w.load(w.pristine)
        q._pending.clear()
        for i in range(n):
            q.push(StartWorkflow(execution_type="PIPELINE", execution_id=f"m{i}"))
        if attempts:
            w.conn.execute("UPDATE queue_messages SET attempts = ?", (attempts,))
            w.conn.commit()

    setup(2, 0)
    ids = [r[0] for r in w.conn.execute("SELECT id FROM queue_messages ORDER BY id")]
    scenario("move_to_dlq", lambda: q.move_to_dlq(ids[0], "boom"), ["m0", "m1"])
    setup(2, MAX_ATTEMPTS)
    scenario("check_and_move_expired", lambda: q.check_and_move_expired(), ["m0", "m1"])
    setup(2, MAX_ATTEMPTS)
    q.check_and_move_expired()
    dl = [r[0] for r in w.conn.execute("SELECT id FROM queue_messages_dlq ORDER BY id")]
    scenario("replay_dlq", lambda: [q.replay_dlq(d) for d in dl], ["m0", "m1"])
    # processor error path: handler raises -> reschedule; and unknown message type -> retries -> DLQ sweep
    setup(1, 0)
    w.incarnate()
    w.queue.max_attempts = MAX_ATTEMPTS
    boom = {"n": 0}

    def failing(msg):
        boom["n"] += 1
        raise RuntimeError("handler failure")

    from stabilize.queue.messages import StartWorkflow as SW

    w.processor._handlers[SW].handle = failing

    def drive():
        for _ in range(6):
            try:
                w.processor.process_one()
            except Exception:
                pass
            HOOKS.on_commit, saved = None, HOOKS.on_commit
            w.normalise_time()
            w.advance()
            HOOKS.on_commit = saved
            w.queue.check_and_move_expired()

    scenario("processor-reschedule-then-dlq", drive, ["m0"])
    final = real_state(w)
    if final[1] != ["m0"] or final[0]:
        viols.append({"kind": "poison-message-not-parked-in-dlq", "state": final, "sig": "poison-not-parked",
                      "signature": "e2:poison-not-parked", "trace": ["processor-reschedule-then-dlq"]})
    if boom["n"] != MAX_ATTEMPTS:
        viols.append({"kind": "poison-message-attempt-count", "handled": boom["n"], "limit": MAX_ATTEMPTS,
                      "sig": "poison-attempts", "signature": "e2:poison-attempts", "trace": ["processor-reschedule-then-dlq"]})
    out, seen = [], set()
    for v in viols:
        if v["signature"] not in seen:
            seen.add(v["signature"])
            out.append(v)
    return {"states": images, "transitions": images, "violations": out, "samples": [], "executions": 0, "points": 0,
            "crash_images": images, "job_spec": job}


def jobs(tier, seed):
    d = 9 if tier == "quick" else 12
    exhausted = ["poll", "reschedule:a0", "advance", "poll", "reschedule:a0", "sweep"]
    js = [{"label": f"ops|depth{d}", "kind": "ops", "depth": d},
          # non-initial start states: one message (pushed either way) already failed to its limit and dead-lettered
          {"label": f"ops|from 'a0 dead-lettered after its limit' (plain push)|depth{d - 2}", "kind": "ops", "depth": d - 2,
           "prefix": ["push"] + exhausted},
          {"label": f"ops|from 'a0 dead-lettered after its limit' (transactional push)|depth{d - 2}", "kind": "ops", "depth": d - 2,
           "prefix": ["push_txn"] + exhausted},
          {"label": "crash-images in DLQ moves / reschedule", "kind": "crash"}]
    cfgs = ([(2, 2, 2, 3, 8), (2, 3, 2, 2, 4), (3, 2, 1, 2, 4)] if tier == "quick"
            else [(2, 2, 2, 4, 16), (2, 3, 3, 3, 16), (3, 3, 2, 2, 16), (3, 2, 2, 3, 16)])
    for (nw, nm, tries, bound, shards) in cfgs:
        for k in range(shards):
            js.append({"label": f"pollers {nw}x{nm} msgs|preemptions<={bound}|shard{k}/{shards}", "kind": "pollers",
                       "workers": nw, "msgs": nm, "tries": tries, "bound": bound, "shard": [k, shards]})
    return js


def run_job(job):
    return {"ops": op_sequences_job, "crash": crash_job, "pollers": pollers_job}[job["kind"]](job)


def aggregate(results, tier, seed, pre):
    good = [r for r in results if "harness_error" not in r]
    ops = [r for r in good if r.get("job_spec", {}).get("kind") == "ops"]
    return aggregate_e3(results, extra={
        "op_sequence_states": sum(r["states"] for r in ops), "op_sequence_transitions": sum(r["transitions"] for r in ops),
        "op_sequence_depth": max([r.get("depth", 0) for r in ops] or [0]),
        "op_sequence_samples": [s for r in ops for s in r.get("samples", [])][:2],
        "crash_images": sum(r.get("crash_images", 0) for r in good),
        "states": max(1, sum(r.get("states", 0) for r in good if r.get("job_spec", {}).get("kind") != "pollers") + sum(r.get("points", 0) for r in good)),
        "transitions": max(1, sum(r.get("transitions", 0) for r in good if r.get("job_spec", {}).get("kind") != "pollers") + sum(r.get("points", 0) for r in good)),
    })


def replay(payload):
    r = run_job(payload["job"])
    want = payload["violation"].get("signature")
    return {"violations": [v for v in r["violations"] if v.get("signature") == want]}
