"""C01 - crash anywhere, restart with recovery: same outcome as an uninterrupted run (E2)."""

from __future__ import annotations

import collections

from vlib.dataflow import projection
from vlib.e1jobs import make_workload, reference_outcomes, wl, world
from vlib.e2 import CrashEngine, ledger_counts
from vlib.monitors import check_audit_rows, check_quiescent, diagnose
from vlib.world import dumps

PROPERTY = "C01"

WLS = [
    wl("chain3"), wl("diamond"), wl("multitask"), wl("diamond_multitask"), wl("fail_mid"), wl("raise_mid"),
    wl("continue_on_fail"), wl("skip_stage"), wl("poll", 2), wl("transient", 2, True), wl("transient", 1, False),
    wl("jump_self", 1), wl("jump_cycle", 2, 2), wl("jump_cycle", 3, 1), wl("jump_forward_diamond", 1),
    wl("jump_side_fanin", 1), wl("or_split_join"), wl("synthetic"), wl("synthetic_raise"), wl("fan3"),
]
RACY = [wl("fail_branch"), wl("first_of"), wl("quorum")]


def jobs(tier, seed):
    js = []
    scheds = ["fifo"] if tier == "quick" else ["fifo", "lifo", "rot"]
    for spec in WLS + RACY:
        for sc in scheds:
            js.append({"label": f"{spec[0]}{spec[1]}|{sc}|single", "wl": spec, "schedule": sc, "pairs": False})
    if tier == "thorough":
        # every pair of successive crashes (the second one inside the recovery / drain of the first): quadratic in the
        # number of commits, so on the workloads up to ~60 commits; the two largest (synthetic, diamond_multitask ...)
        # take 10 minutes each and are left to the single-crash jobs
        heavy = {"synthetic", "diamond_multitask", "fan3", "jump_side_fanin", "quorum", "multi_merge", "first_of"}
        for spec in WLS + RACY:
            if spec[0] in heavy:
                continue
            js.append({"label": f"{spec[0]}{spec[1]}|fifo|pairs", "wl": spec, "schedule": "fifo", "pairs": True})
    return js


def seen_set(workload, ledger):
    """(stage, task, step, digest of the path-ordered context) for every execution."""
    out = set()
    for e in ledger:
        out.add((e["stage"], e["task"], e["step"], dumps(projection(workload, e["stage"], e["ctx"]))))
    return out


def commits_in(snaps, s):
    return 1 + max(x.k for x in snaps if x.step == s.step and x.action == s.action)


def inflight_task(action):
    # "d:RunTask:B:t" -> ("B", "t")
    parts = action.split(":")
    if len(parts) >= 4 and parts[1] == "RunTask":
        return (parts[2].split("/")[-1], parts[3].split("#")[0])
    return None


def oracle(workload, adm, ref_ledger, ref_seen, final, pre_ledger, post_ledger, inflight, what, ref_final_status=None):
    v = []
    view = final.view
    o = dumps(view.outcome())
    if view.queue:
        v.append({"kind": "stranded-in-queue", "sig": "stranded-queue", "queue": [m["type"] for m in view.queue]})
    if o not in adm:
        v.append({"kind": "outcome-differs-after-crash", "observed": view.outcome(),
                  "sig": "outcome-differs:" + diagnose(view)})
    for q in check_quiescent(view, expect_empty_dlq=True):
        q["sig"] = "quiescent:" + q["sig"]
        v.append(q)
    full = pre_ledger + post_ledger
    seen = seen_set(workload, full)
    extra = seen - ref_seen
    if extra and workload.klass == "confluent":
        ex = sorted(extra)[0]
        refs = sorted(x for x in ref_seen if x[0] == ex[0] and x[1] == ex[1] and x[2] == ex[2])
        v.append({"kind": "stage-saw-different-upstream-data", "stage": ex[0], "task": ex[1], "step": ex[2],
                  "saw": ex[3], "uninterrupted": [r[3] for r in refs][:2], "sig": f"data-seen-differs:{ex[2]}"})
    if workload.klass == "confluent":
        missing = {(s, t, st) for (s, t, st, _d) in ref_seen} - {(s, t, st) for (s, t, st, _d) in seen}
        if missing and o in adm:
            v.append({"kind": "execution-missing", "missing": sorted(missing)[:3], "sig": "execution-missing"})
        rc, cc = ledger_counts(ref_ledger), ledger_counts(full)
        for k, n in cc.items():
            allow = rc.get(k, 0) + sum(1 for i in inflight if i == k)
            if n > allow:
                v.append({"kind": "extra-execution", "task": f"{k[0]}#{k[1]}", "count": n, "uninterrupted": rc.get(k, 0),
                          "in_flight_at_crash": [i for i in inflight if i], "sig": "extra-execution"})
    # attribute the case to a known window / effect so that signatures name the site that matters
    tag = None
    crashes = [what] + ([what["second_crash"]] if isinstance(what, dict) and what.get("second_crash") else [])
    for c in crashes:
        k = c.get("crash_after_commit", c.get("after_commit"))
        n = c.get("commits_in_step") or 0
        # StartStage commits: poll(0) claim(1) [add synthetic stages]* plan(n-3) processor-mark(n-2) ack(n-1)
        h = str(c.get("handling", ""))
        if h.startswith("d:StartStage") and k is not None and 1 <= k <= max(1, n - 4):
            tag = "claim-plan-window"
            # the same window while a message for a task of this very stage is still queued that will not drive
            # it (the previous iteration's CompleteTask(REDIRECT); an already processed, un-acked StartTask left
            # by an earlier crash): recovery believes the task is being driven and pushes nothing
            stage = h.split(":")[2] if h.count(":") >= 2 else ""
            if any(q.split(":")[0] in ("CompleteTask", "StartTask", "RunTask") and q.split(":")[1:2] == [stage]
                   for q in c.get("queued_at_crash", ())):
                tag = "claim-plan-window+stale-task-message"
    ref_status = ref_final_status or {}
    # a branch the uninterrupted run SKIPPED has executed: that effect has one known cause, whatever else crashed
    if any(ref_status.get(e["stage"]) == "SKIPPED" for e in full):
        tag = "revived-skipped-branch"
    if tag is None and view.wf["status"] == "RUNNING" and any(
            s["status"] == "RUNNING" and any(t[1] == "REDIRECT" for t in s["tasks"]) for s in view.stages.values()):
        tag = "stale-redirect-wedge"
    for x in v:
        x["where"] = what
        x["tag"] = tag
    return v


def run_job(job):
    w = world()
    workload = make_workload(job["wl"])
    adm, _l, _ = reference_outcomes(w, workload)
    eng = CrashEngine(w, workload, schedule=job["schedule"])
    base_final, base_ledger, snaps = eng.baseline(record_start=True)
    if dumps(base_final.view.outcome()) not in adm:
        # the crash-free run under this baseline schedule already differs from the in-order run: that is
        # C02's subject (reordering), not a crash effect; this baseline cannot serve as a C01 reference
        return {"evaluations": 1, "crash_points": 0, "distinct_outcomes": 1, "violations": [], "violation_instances": 0,
                "job_spec": job, "samples": [["baseline skipped: crash-free outcome under this schedule is not the in-order outcome"]],
                "baseline_steps": len(base_final.trace), "baseline_executions": len(base_ledger), "baseline_skipped": True}
    ref_seen = seen_set(workload, base_ledger)
    ref_status = {lab: st["status"] for lab, st in base_final.view.stages.items()}
    if workload.klass != "confluent":
        ref_seen = None
    viols, evals, outcomes = [], 0, collections.Counter()
    legal_rows = 0
    points = []
    for i, s in enumerate(snaps):
        nxt = snaps[i + 1] if i + 1 < len(snaps) else None
        cuts = [(s.ledger_len, s.ec)]
        if nxt is not None and nxt.ledger_len != s.ledger_len:
            cuts.append((nxt.ledger_len, nxt.ec))  # the in-flight task body ran, its commit did not happen
        for (cut, ec) in cuts:
            for order in ("restart-first", "expire-first"):
                pre = base_ledger[:cut]
                final, post, snaps2 = eng.recover(s, order, ec=ec, record=job["pairs"])
                evals += 1
                infl = [inflight_task(s.action)]
                where = {"crash_after_commit": s.k, "of_step": s.step, "handling": s.action, "order": order,
                         "ledger_cut": cut, "commits_in_step": commits_in(snaps, s),
                         "queued_at_crash": list(eng.last_crash_queue)}
                vs = oracle(workload, adm, base_ledger, ref_seen or seen_set(workload, pre + post), final, pre, post,
                            infl, where, ref_status)
                outcomes[dumps(final.view.outcome())] += 1
                viols.extend(vs)
                if job["pairs"]:
                    for s2 in snaps2:
                        pre2 = pre + post[: max(0, s2.ledger_len)]
                        for order2 in ("restart-first",):
                            final2, post2, _ = eng.recover(s2, order2, ec=s2.ec, record=False)
                            q2 = list(eng.last_crash_queue)
                            evals += 1
                            infl2 = infl + [inflight_task(s2.action)]
                            where2 = dict(where, second_crash={"after_commit": s2.k, "of_step": s2.step,
                                                               "handling": s2.action, "queued_at_crash": q2,
                                                               "commits_in_step": commits_in(snaps2, s2)})
                            vs2 = oracle(workload, adm, base_ledger,
                                         ref_seen or seen_set(workload, pre2 + post2), final2, pre2, post2, infl2, where2,
                                         ref_status)
                            outcomes[dumps(final2.view.outcome())] += 1
                            viols.extend(vs2)
        points.append(f"{s.step}.{s.k}:{s.action}")
    for v in eng.mon_violations:
        viols.append(v)
    # collapse duplicates by signature + handling
    out, seen_sig = [], set()
    for v in viols:
        w_ = v.get("where") or {}
        h = (w_.get("second_crash") or w_).get("handling", "")
        hk = v.get("tag") or ":".join(h.split(":")[:2])
        sig = f"e2:{v['sig']}@{hk}"
        v["signature"] = sig
        if sig in seen_sig:
            continue
        seen_sig.add(sig)
        v["trace"] = [str(v.get("where"))]
        out.append(v)
    return {
        "evaluations": evals, "crash_points": len(snaps), "distinct_outcomes": len(outcomes),
        "violations": out, "violation_instances": len(viols), "job_spec": job,
        "samples": [points[:6]], "baseline_steps": len(base_final.trace), "baseline_executions": len(base_ledger),
    }


def aggregate(results, tier, seed, pre):
    good = [r for r in results if "harness_error" not in r]
    evals = sum(r["evaluations"] for r in good)
    pts = sum(r["crash_points"] for r in good)
    samples = [{"job": r["job"], "crash_points": r["samples"][0]} for r in good[:3]]
    return {
        "level": "fault_enumeration",
        "coverage": {
            "evaluations": evals,
            "distinct_nontrivial": pts,
            "rule": "one case = (workload, baseline schedule, commit index k of the run [, second crash commit], ledger cut, restart order); "
                    "every durable commit made by engine code during the run is enumerated (commit hook on the real sqlite3 connection); "
                    "distinct_nontrivial counts distinct crash images (commit points), each followed by restart + lock expiry + recovery sweep + drain on the real engine",
            "samples": samples,
            "exhaustive": True,
            "crash_points": pts,
            "per_job": [{k: r.get(k) for k in ("job", "crash_points", "evaluations", "distinct_outcomes", "baseline_steps",
                                               "violation_instances", "wall_s")} for r in good],
            "headline": {"jobs": len(good), "crash_points": pts, "recoveries": evals},
        },
        "assumptions": [
            "SQLite atomic commit trusted: crash states are exactly the images after each commit",
            "the baseline schedules are FIFO (quick) + LIFO + rotation (thorough); commit points of other delivery orders are covered by C02/C10",
            "post-crash drain is FIFO",
        ],
    }


def replay(payload):
    job = payload["job"]
    res = run_job(job)
    want = payload["violation"].get("signature")
    hit = [v for v in res["violations"] if v.get("signature") == want]
    return {"violations": hit, "all_signatures": [v["signature"] for v in res["violations"]]}
