"""C20 - graph validation and condition expressions are sound and total (E5 small-scope enumeration)."""

from __future__ import annotations

import itertools
import logging

logging.disable(logging.CRITICAL)

PROPERTY = "C20"


# ------------------------------------------------------------------ graphs
def ref_valid(stages):
    """Independent reference: unique refs, no self edge, known refs, DFS-acyclic."""
    refs = [r for r, _ in stages]
    if len(set(refs)) != len(refs):
        return False
    known = set(refs)
    for r, deps in stages:
        if r in deps or not set(deps) <= known:
            return False
    g = {r: set(d) for r, d in stages}
    state = {}

    def dfs(n):
        if state.get(n) == 1:
            return False
        if state.get(n) == 2:
            return True
        state[n] = 1
        for m in g[n]:
            if not dfs(m):
                return False
        state[n] = 2
        return True

    return all(dfs(r) for r in refs)


def graph_job(job):
    from stabilize import StageExecution, Workflow
    from stabilize.dag.topological import topological_sort

    refs = job["refs"]
    universe = refs + ["zz"]
    subsets = [c for k in range(len(universe) + 1) for c in itertools.combinations(universe, k)]
    if job.get("max_deps") is not None:
        subsets = [s for s in subsets if len(s) <= job["max_deps"]]
    per_stage = [(r, d) for r in refs for d in subsets]
    evals, viols, valid_n, samples = 0, [], 0, []
    for n in range(0, job["n"] + 1):
        for combo in itertools.product(per_stage, repeat=n):
            if job.get("shard") and n == job["n"] and (hash_combo(combo) % job["shard"][1]) != job["shard"][0]:
                continue
            stages = [StageExecution(ref_id=r, name=r, type="t", requisite_stage_ref_ids=set(d)) for r, d in combo]
            want = ref_valid(list(combo))
            evals += 1
            try:
                wf = Workflow.create(application="v", name="g", stages=stages)
                got, err = True, None
            except Exception as e:  # noqa: BLE001
                got, err = False, e
            if got != want:
                viols.append({"kind": "validation-disagrees-with-reference", "stages": [list(map(list, map(lambda x: [x[0], list(x[1])], combo)))],
                              "accepted": got, "reference_valid": want, "error": repr(err),
                              "sig": f"graph-validation:{'accepted-invalid' if got else 'rejected-valid'}"})
                continue
            if got:
                valid_n += 1
                order = topological_sort(wf.stages)
                pos = {s.ref_id: i for i, s in enumerate(order)}
                if len(order) != len(stages) or any(pos[d] > pos[r] for r, deps in combo for d in deps):
                    viols.append({"kind": "topological-order-wrong", "stages": [[r, list(d)] for r, d in combo],
                                  "order": [s.ref_id for s in order], "sig": "topo-order"})
                if len(samples) < 2 and n == job["n"]:
                    samples.append({"stages": [[r, list(d)] for r, d in combo], "order": [s.ref_id for s in order]})
            else:
                from stabilize.dag.topological import CircularDependencyError

                try:
                    from stabilize.dag.topological import InvalidStageGraphError
                    okerr = isinstance(err, (CircularDependencyError, InvalidStageGraphError))
                except ImportError:
                    okerr = isinstance(err, (CircularDependencyError, ValueError))
                if not okerr:
                    viols.append({"kind": "validation-raised-unexpected-exception", "error": repr(err), "sig": "graph-exception:" + type(err).__name__})
    return pack(job, evals, valid_n, viols, samples, "e5")


def hash_combo(combo):
    h = 0
    for r, d in combo:
        h = (h * 131 + sum(ord(c) for c in r) * 7 + sum(sum(ord(c) for c in x) for x in d)) & 0xFFFFFFF
    return h


# ------------------------------------------------------------------ expressions
class Recorder:
    def __init__(self):
        self.calls = 0

    def __call__(self, *a, **k):
        self.calls += 1
        return 1


class Sentinel:
    """Any protocol use other than comparison is recorded."""

    def __init__(self):
        self.touched = []

    def __getattr__(self, name):
        if name.startswith("__") or name == "touched":
            raise AttributeError(name)
        self.touched.append("getattr:" + name)
        return None

    def __call__(self, *a, **k):
        self.touched.append("call")

    def __getitem__(self, k):
        self.touched.append("getitem")
        raise KeyError(k)

    def __contains__(self, o):  # `in` is one of the evaluator's comparison operators: allowed, not recorded
        return False

    def __eq__(self, o):
        return self is o

    def __hash__(self):
        return 1


ATOMS = ["x", "y", "zz", "1", "0", "'a'", "''", "None", "True", "true", "1.5", "d", "l", "f", "s", "2", "[]", "()"]
ATOMS_SMALL = ["x", "zz", "1", "'a'", "d", "l", "f", "s"]
CMP = ["==", "!=", "<", "<=", ">", ">=", "is", "is not", "in", "not in"]


def level1(atoms):
    out = []
    for a in atoms:
        out += [f"not {a}", f"-{a}", f"+{a}", f"~{a}", f"{a}.k", f"{a}.get", f"{a}['k']", f"{a}[0]", f"{a}[1:2]", f"{a}()",
                f"{a}(1)", f"[{a}]", f"({a},)", f"{{{a}: 1}}", f"{{{a}}}", f"(lambda: {a})", f"f'{{{a}}}'", f"[*{a}]",
                f"[q for q in {a}]", f"(q := {a})", f"{a} if {a} else 0", f"{a}.__class__", f"{a}[{a}]"]
    for a, b in itertools.product(atoms, repeat=2):
        for op in CMP:
            out.append(f"{a} {op} {b}")
        out += [f"{a} and {b}", f"{a} or {b}", f"{a} + {b}", f"{a} * {b}", f"{a}[{b}]", f"{a} if {b} else {a}", f"{a} < {b} < {a}"]
    return out


def contexts():
    vals_x = [("missing", None), ("none", None), ("int", 3), ("str", "a"), ("list", [1, 2]), ("dict", {"k": 1, "a": 2})]
    out = []
    for (nx, vx) in vals_x:
        for (ny, vy) in [("int", 1), ("str", "b"), ("none", None)]:
            out.append((f"x={nx},y={ny}", nx == "missing", vx, vy))
    return out


WEIRD = ["", " ", "\x00", "1 +", "((((", ")", "x ==", "import os", "__import__('os')", "x; y", "lambda", "1" * 5000, "(" * 300 + "1" + ")" * 300,
         "not " * 300 + "x", "x" + ".a" * 400, "x if " * 50 + "1" + " else 0" * 50, "'\\ud800'", "0x", "1e999", "-1e999 < x", "\n", "x\n== 1",
         "# c", "yield x", "await x", "*x", "x := 1", "print(1)", "f(f)", "s.a.b", "d.k.k", "l[5]", "l[-1]", "d[l]", "d[d]", "l[d]", "x[x]",
         "1 in 1", "'a' in 1", "1 < 'a'", "None < None", "-None", "-'a'", "-l", "-d", "not not x", "- - 1", "~1", "x ** 2", "[1, *l]", "{**d}",
         "1 if 1 else", "True and", "true", "TRUE", "false", "0", "1", " true ", "null", "none", "x is null", "zz.a.b.c", "d['k']['j']"]
# nesting deeper than the interpreter's recursion limit (1000) - and far deeper - in every recursive construct
for _n in (990, 1200, 5000):
    WEIRD += ["not " * _n + "x", "x" + ".a" * _n, "-" * _n + "1", "x" + "[0]" * _n, "x and " * _n + "x", "1 < " * _n + "2",
              "x == " * _n + "1", "[" * _n + "]" * _n, "x if y else " * _n + "0"]


def expr_job(job):
    from stabilize.expressions import ExpressionError, evaluate_expression

    exprs = list(WEIRD)
    l1 = level1(ATOMS)
    exprs += ATOMS + l1
    if job["size"] >= 2:
        small1 = level1(ATOMS_SMALL)
        step = job.get("stride", 1)
        pick = small1[::step]
        for e in pick:
            exprs += [f"not ({e})", f"-({e})", f"({e}).k", f"({e})[0]", f"({e}) == 1", f"1 in ({e})", f"({e}) and x", f"d[({e})]",
                      f"({e}) if x else y", f"[{e}]", f"({e})()"]
    if job.get("shard"):
        k, n = job["shard"]
        exprs = [e for i, e in enumerate(exprs) if i % n == k]
    evals, viols, values, errors, samples = 0, [], 0, 0, []
    for (cname, missing, vx, vy) in contexts():
        for e in exprs:
            f, s = Recorder(), Sentinel()
            ctx = {"y": vy, "d": {"k": {"j": 1}, "a": [1]}, "l": [1, "a", None], "f": f, "s": s}
            if not missing:
                ctx["x"] = vx
            evals += 1
            try:
                evaluate_expression(e, ctx)
                values += 1
                kind = "value"
            except ExpressionError:
                errors += 1
                kind = "ExpressionError"
            except BaseException as ex:  # noqa: BLE001
                kind = type(ex).__name__
                viols.append({"kind": "expression-raised-foreign-exception", "expression": e[:80], "context": cname,
                              "exception": kind, "message": str(ex)[:120], "sig": f"foreign-exception:{kind}:{classify(str(ex))}"})
            if f.calls:
                viols.append({"kind": "expression-called-a-function", "expression": e[:80], "sig": "called-function"})
            if s.touched:
                viols.append({"kind": "expression-touched-object-protocol", "expression": e[:80], "touched": s.touched[:3],
                              "sig": "touched-object:" + s.touched[0].split(":")[0]})
            if len(samples) < 3 and kind == "value" and len(e) > 6:
                samples.append({"expression": e, "context": cname, "result": kind})
    # callers: a malformed condition can skip a branch but cannot crash a stage
    caller_evals, cv = callers([e for e in WEIRD if e in exprs] + exprs[:: max(1, len(exprs) // 400)])
    viols += cv
    return pack(job, evals + caller_evals, values, viols, samples, "e5", extra={"expression_values": values, "expression_errors": errors,
                                                                      "caller_evaluations": caller_evals})


def classify(msg):
    for key, name in (("unary -", "unary-minus"), ("unhashable", "unhashable-subscript-key"), ("unary", "unary-op"),
                      ("recursion", "recursion"), ("null byte", "null-byte")):
        if key in msg:
            return name
    return msg[:30]


def shape(e):
    if len(e) > 40:
        return "long"
    import re

    return re.sub(r"[a-z]+", "v", re.sub(r"'[^']*'", "S", e))[:24]


def callers(exprs):
    from stabilize import StageExecution, Workflow
    from stabilize.handlers.complete_stage.split_logic import CompleteStagesSplitMixin
    from stabilize.handlers.start_stage.conditions import StartStageConditionsMixin
    from stabilize.models.stage import SplitType

    class H(StartStageConditionsMixin, CompleteStagesSplitMixin):
        repository = None
        queue = None

    h = H()
    n, v = 0, []
    for e in exprs:
        st = StageExecution(ref_id="a", name="a", type="t", context={"stageEnabled": {"type": "expression", "expression": e}, "x": 1})
        down = StageExecution(ref_id="b", name="b", type="t", requisite_stage_ref_ids={"a"})
        wf = Workflow(application="v", name="c", stages=[st, down])
        st.execution = wf
        n += 2
        try:
            h._should_skip(st)
        except BaseException as ex:  # noqa: BLE001
            v.append({"kind": "stageEnabled-condition-crashed-the-stage", "expression": e[:80], "exception": type(ex).__name__,
                      "sig": f"caller-crash:_should_skip:{type(ex).__name__}"})
        st2 = StageExecution(ref_id="a", name="a", type="t", context={"x": 1}, split_type=SplitType.OR, split_conditions={"b": e})
        try:
            h._apply_split_logic(st2, [down])
        except BaseException as ex:  # noqa: BLE001
            v.append({"kind": "split-condition-crashed-the-stage", "expression": e[:80], "exception": type(ex).__name__,
                      "sig": f"caller-crash:_apply_split_logic:{type(ex).__name__}"})
        # "a malformed condition can skip a branch": next to a branch whose condition holds, the branch with condition
        # e is decided - activated iff e evaluates truthy, otherwise skipped - and every branch is decided exactly once
        from stabilize.expressions import ExpressionError, evaluate_expression

        other = StageExecution(ref_id="c", name="c", type="t", requisite_stage_ref_ids={"a"})
        st3 = StageExecution(ref_id="a", name="a", type="t", context={"x": 1}, split_type=SplitType.OR,
                             split_conditions={"b": e, "c": "x == 1"})
        try:
            want = "activated" if evaluate_expression(e, {"x": 1}) else "skipped"
        except ExpressionError:
            want = "skipped"
        except BaseException:  # noqa: BLE001  (reported by the evaluator part)
            continue
        n += 1
        try:
            act, skp = h._apply_split_logic(st3, [down, other])
        except BaseException:  # noqa: BLE001  (reported above)
            continue
        a_ids, s_ids = [d.ref_id for d in act], [d.ref_id for d in skp]
        got = "activated" if "b" in a_ids else ("skipped" if "b" in s_ids else "neither")
        if sorted(a_ids + s_ids) != ["b", "c"] or got != want or "c" not in a_ids:
            v.append({"kind": "or-split-decision-wrong", "expression": e[:80], "activated": a_ids, "skipped": s_ids,
                      "branch_b_should_be": want, "sig": f"or-split:{got}-instead-of-{want}"})
    return n, v


def pack(job, evals, distinct, viols, samples, engine, extra=None):
    out, seen = [], set()
    for v in viols:
        v["signature"] = f"{engine}:{v['sig']}"
        v.setdefault("trace", [v.get("expression") or v.get("stages")])
        if v["signature"] not in seen:
            seen.add(v["signature"])
            out.append(v)
    r = {"evaluations": evals, "distinct": distinct, "violations": out, "violation_instances": len(viols), "samples": samples,
         "job_spec": job}
    if extra:
        r.update(extra)
    return r


def jobs(tier, seed):
    js = []
    if tier == "quick":
        js.append({"label": "graphs<=2 stages over {a,b,c,zz}", "kind": "graph", "refs": ["a", "b", "c"], "n": 2})
        for k in range(8):
            js.append({"label": f"graphs 3 stages|shard{k}/8", "kind": "graph", "refs": ["a", "b", "c"], "n": 3, "shard": [k, 8]})
        for k in range(4):
            js.append({"label": f"expressions size<=2 (strided)|shard{k}/4", "kind": "expr", "size": 2, "stride": 7, "shard": [k, 4]})
    else:
        for k in range(16):
            js.append({"label": f"graphs 3 stages|shard{k}/16", "kind": "graph", "refs": ["a", "b", "c"], "n": 3, "shard": [k, 16]})
        for k in range(16):
            js.append({"label": f"graphs 4 stages (<=2 deps)|shard{k}/16", "kind": "graph", "refs": ["a", "b", "c", "e"], "n": 4,
                       "max_deps": 1, "shard": [k, 16]})
        for k in range(16):
            js.append({"label": f"expressions size<=2 (all)|shard{k}/16", "kind": "expr", "size": 2, "stride": 1, "shard": [k, 16]})
    return js


def run_job(job):
    return graph_job(job) if job["kind"] == "graph" else expr_job(job)


def aggregate(results, tier, seed, pre):
    good = [r for r in results if "harness_error" not in r]
    return {
        "level": "exploration",
        "coverage": {
            "evaluations": sum(r["evaluations"] for r in good),
            "distinct_nontrivial": sum(r["distinct"] for r in good),
            "rule": "graphs: every list of <=3 (thorough: 4, <=1 dep each) stages with refs from {a,b,c[,e]} (duplicates allowed) and requisites any subset of the refs plus an unknown ref; "
                    "distinct_nontrivial counts the VALID graphs among them (the rest exercise each rejection reason). expressions: a grammar-generated set covering every supported and "
                    "unsupported AST node kind up to two operator levels plus a list of malformed / hostile strings, each evaluated under 18 contexts; distinct_nontrivial counts evaluations "
                    "that returned a value",
            "samples": [s for r in good for s in r.get("samples", [])][:4] or [{"note": "none"}],
            "exhaustive": True,
            "expression_values": sum(r.get("expression_values", 0) for r in good),
            "expression_errors": sum(r.get("expression_errors", 0) for r in good),
            "caller_evaluations": sum(r.get("caller_evaluations", 0) for r in good),
            "per_job": [{k: r.get(k) for k in ("job", "evaluations", "distinct", "violation_instances", "wall_s")} for r in good],
            "headline": {"jobs": len(good), "evaluations": sum(r["evaluations"] for r in good)},
        },
        "assumptions": ["small-scope hypothesis: alphabets of 3-4 refs and the listed atoms / operators", "CPython 3.12 ast module"],
    }


def replay(payload):
    r = run_job(payload["job"])
    want = payload["violation"].get("signature")
    return {"violations": [v for v in r["violations"] if v.get("signature") == want]}
