"""C05 - when the engine goes quiet every workflow is finished or explicitly waiting (E1)."""

from __future__ import annotations

from vlib.e1 import Explorer
from vlib.e1jobs import aggregate_e1, make_workload, result_from, wl, world
from vlib.monitors import QuiescenceMonitor

PROPERTY = "C05"

SMALL = [
    wl("chain3"), wl("diamond"), wl("multitask"), wl("fail_mid"), wl("raise_mid"), wl("continue_on_fail"),
    wl("skip_stage"), wl("poll", 1), wl("transient", 1, True), wl("or_split_join"), wl("synthetic"),
    wl("synthetic", True), wl("suspend_gate"), wl("jump_self", 1), wl("jump_cycle", 2, 1), wl("jump_cycle", 2, 2),
    wl("jump_forward_diamond", 1), wl("mutex2"), wl("choice2"), wl("synthetic2"), wl("multitask_fail", 0),
    wl("multitask_fail", 1), wl("jump_forward_multitask", 1), wl("synthetic_raise"), wl("declared_after_fc"),
    wl("declared_after_ok"), wl("or_split_err"), wl("or_split_long"), wl("synthetic2_multitask"), wl("synthetic2_failpre"),
    wl("jump_back_multitask", 1),
]
BIG = [wl("fail_branch"), wl("first_of"), wl("quorum"), wl("multi_merge"), wl("fan3"), wl("diamond_multitask"),
       wl("jump_side_fanin", 1), wl("jump_cycle", 3, 1), wl("choice3")]
FAULT = [wl("chain3"), wl("diamond"), wl("multitask"), wl("synthetic"), wl("synthetic2"), wl("fail_mid"), wl("first_of"),
         wl("jump_cycle", 2, 1), wl("suspend_gate"), wl("or_split_join"), wl("synthetic_gate"), wl("synthetic_multitask")]
CANCEL = [wl("diamond"), wl("multitask"), wl("fail_branch"), wl("synthetic"), wl("poll", 1)]


def jobs(tier, seed):
    js = []
    bound = 2 if tier == "quick" else 3
    shards = 4 if bound == 2 else 16
    for k in range(shards):
        js.append({"label": f"e3 concurrency slot: StartWorkflow(W2)||CompleteWorkflow(W1)+StartWaitingWorkflows|preemptions<={bound}|shard{k}/{shards}",
                   "slots": True, "bound": bound, "shard": [k, shards]})
    # one transient database error ("database is locked") before any statement of any delivery of the in-order run,
    # no crash, no recovery sweep: the engine's own retry / reschedule paths must bring the workflow to an end
    for spec in FAULT:
        js.append({"label": f"{spec[0]}{spec[1]}|in-order|db-error1", "wl": spec, "budget": {"fault": 1}, "in_order": True,
                   "max_states": 400000})
    for spec in [wl("chain3"), wl("multitask"), wl("fail_mid"), wl("poll", 1)]:
        js.append({"label": f"{spec[0]}{spec[1]}|pause1,unpause1", "wl": spec, "budget": {"pause": 1, "unpause": 1}})
    # rarely used control flow: a cancel region cancelled at any moment, a milestone-gated stage
    js.append({"label": "region_diamond|cancel-region-anywhere", "wl": wl("region_diamond"), "budget": {"cancelregion": 1}})
    js.append({"label": "milestone2|all-orders,noack1", "wl": wl("milestone2"), "budget": {"noack": 1}})
    if tier == "quick":
        for spec in SMALL:
            js.append({"label": f"{spec[0]}{spec[1]}|noack1", "wl": spec, "budget": {"noack": 1}})
        for spec in BIG:
            js.append({"label": f"{spec[0]}{spec[1]}|all-orders", "wl": spec, "budget": {}})
        for spec in CANCEL:
            js.append({"label": f"{spec[0]}{spec[1]}|cancel1", "wl": spec, "budget": {"cancel": 1}})
    else:
        for spec in SMALL + BIG:
            js.append({"label": f"{spec[0]}{spec[1]}|noack1", "wl": spec, "budget": {"noack": 1}, "max_states": 300000})
            js.append({"label": f"{spec[0]}{spec[1]}|early1,sweep1", "wl": spec, "budget": {"early": 1, "sweep": 1}})
        for spec in CANCEL:
            js.append({"label": f"{spec[0]}{spec[1]}|cancel1,noack1", "wl": spec, "budget": {"cancel": 1, "noack": 1}})
    return js


def build(job):
    w = world()
    workload = make_workload(job["wl"])
    from vlib.e1jobs import in_order_filter

    return Explorer(w, workload, [QuiescenceMonitor(fault_free_dlq=True)], job.get("budget"),
                    max_states=job.get("max_states", 150000), time_cap=job.get("time_cap", 600),
                    actions_filter=in_order_filter if job.get("in_order") else None)


def run_job(job):
    if job.get("slots"):
        from checks.c05_slots import slots_job

        return slots_job(job)
    ex = build(job).run()
    res = result_from(ex, "e1")
    if job.get("in_order"):
        # name the site of the injected error: message type and what the faulted delivery left behind
        for v in res["violations"]:
            f = next((t for t in v.get("trace", []) if t.startswith("df")), None)
            if f is None:
                continue
            _, mtype, *rest = f.split(":")
            lab = rest[0] if rest else ""
            after = (v.get("stages") or {}).get(lab)
            where = "before-claim" if (mtype == "StartStage" and after == "NOT_STARTED") else str(after)
            v["signature"] = f"{v['signature']}@db-error:{mtype}:{where}"
    res["job_spec"] = job
    return res


def aggregate(results, tier, seed, pre):
    return aggregate_e1(results, tier, seed, pre)


def replay(payload):
    ex = build(payload["job"])
    out, viols, st = ex.replay(payload["violation"]["trace"])
    return {"steps": out, "violations": viols, "final_outcome": st.view.outcome()}
