"""C03 - a stage never runs before its dependencies allow it (E1)."""

from __future__ import annotations

from vlib import workloads as W
from vlib.e1 import Explorer
from vlib.e1jobs import aggregate_e1, make_workload, result_from, wl, world
from vlib.monitors import DependencyMonitor, DownstreamOfHaltMonitor

PROPERTY = "C03"

JOINS = [wl("first_of"), wl("quorum"), wl("or_split_join"), wl("multi_merge"), wl("fail_branch"),
         wl("jump_cycle", 2, 1), wl("jump_forward_diamond", 1), wl("jump_side_fanin", 1), wl("jump_diamond_loop", 1), wl("jump_two_targets"), wl("or_split_long"), wl("or_split_err"),
         wl("join_fail", "DISCRIMINATOR", 0, True), wl("join_fail", "DISCRIMINATOR", 0, False),
         wl("join_fail", "N_OF_M", 1, True), wl("join_fail", "N_OF_M", 2, True), wl("join_fail", "MULTI_MERGE", 0, True),
         wl("join_fail", "OR", 0, True), wl("join_fail", "AND", 0, True)]


def dag_specs(max_n, halts=True):
    out = []
    for n in range(1, max_n + 1):
        shapes = W.dag_shapes(n)
        for idx, shape in enumerate(shapes):
            out.append(wl("dag_workload", n, idx))
            if halts:
                for r, _deps in shape:
                    out.append(wl("dag_workload", n, idx, r))
    return out


def edges(n, idx):
    return sum(len(deps) for _r, deps in W.dag_shapes(n)[idx])


def jobs(tier, seed):
    js = []
    if tier == "quick":
        # quick keeps the shapes where a dependency can actually be violated: shapes
        # with few edges are mostly independent stages and dominate the cost (the
        # thorough tier runs every shape).
        for spec in dag_specs(3):
            n, idx = spec[1][0], spec[1][1]
            if n == 3 and edges(n, idx) == 0:
                continue
            js.append({"label": f"dag{spec[1]}|spurious1", "wl": spec, "budget": {"spurious": 1}})
        for spec in dag_specs(4):
            n, idx = spec[1][0], spec[1][1]
            halting = len(spec[1]) > 2
            if n == 4 and edges(n, idx) >= (3 if halting else 2):
                js.append({"label": f"dag{spec[1]}|all-orders", "wl": spec, "budget": {}})
        first = []
        for spec in JOINS:
            first.append({"label": f"{spec[0]}{spec[1]}|spurious1", "wl": spec, "budget": {"spurious": 1}})
        js = first + js  # longest jobs first
    else:
        for spec in dag_specs(4):
            n = spec[1][0]
            js.append({"label": f"dag{spec[1]}|spurious{2 if n <= 3 else 1}", "wl": spec,
                       "budget": {"spurious": 2 if n <= 3 else 1}})
            if n <= 3:
                js.append({"label": f"dag{spec[1]}|spurious1,noack1", "wl": spec, "budget": {"spurious": 1, "noack": 1}})
        for i in range(8):
            n = 5 + i % 3
            js.append({"label": f"dag_seeded[{n},seed={seed},{i}]|all-orders (capped 600 s)", "wl": wl("dag_seeded", n, seed, i),
                       "budget": {}, "time_cap": 600, "max_states": 400000})
        for spec in JOINS:
            js.append({"label": f"{spec[0]}{spec[1]}|spurious2", "wl": spec, "budget": {"spurious": 2}})
            js.append({"label": f"{spec[0]}{spec[1]}|spurious1,noack1", "wl": spec, "budget": {"spurious": 1, "noack": 1}})
    # loops under a worker death at any point of any delivery: a redelivered message must not start a task in a stage
    # that a jump has meanwhile re-armed
    for spec in [wl("jump_cycle", 2, 1), wl("jump_two_targets"), wl("jump_back_multitask", 1), wl("jump_sibling_fanin", 1)]:
        js.append({"label": f"{spec[0]}{spec[1]}|worker-death1", "wl": spec, "budget": {"noack": 1}, "max_states": 400000})
    # an older bystander workflow in the same store uses the same ref_ids with another dependency shape
    for kind, name, *args in (("nodeps", "chain3"), ("nodeps", "diamond"), ("chain", "diamond"), ("nodeps", "first_of"),
                              ("nodeps", "quorum"), ("chain", "fan3")):
        js.append({"label": f"{name}{list(args)}+bystander({kind})|spurious1", "wl": wl("with_decoy", kind, name, *args),
                   "budget": {"spurious": 1}})
    return js


def build(job):
    w = world()
    workload = make_workload(job["wl"])
    mons = [DependencyMonitor(), DownstreamOfHaltMonitor()]
    return Explorer(w, workload, mons, job.get("budget"), max_states=job.get("max_states", 150000),
                    time_cap=job.get("time_cap", 600))


def run_job(job):
    ex = build(job).run()
    res = result_from(ex, "e1")
    res["job_spec"] = job
    return res


def aggregate(results, tier, seed, pre):
    return aggregate_e1(results, tier, seed, pre)


def replay(payload):
    ex = build(payload["job"])
    out, viols, st = ex.replay(payload["violation"]["trace"])
    return {"steps": out, "violations": viols, "final_outcome": st.view.outcome()}
