"""C10 - recovery sweeps: harmless on healthy workflows, idempotent after a crash (E1 + E2)."""

from __future__ import annotations

import collections

from vlib.e1 import Explorer
from vlib.e1jobs import aggregate_e1, make_workload, reference_outcomes, result_from, wl, world
from vlib.e2 import CrashEngine, ledger_counts
from vlib.monitors import ExecCountMonitor, ExecOnceMonitor, OutcomeMonitor
from vlib.world import dumps

PROPERTY = "C10"

WLS = [wl("chain3"), wl("diamond"), wl("multitask"), wl("fail_mid"), wl("continue_on_fail"), wl("skip_stage"),
       wl("poll", 2), wl("transient", 1, True), wl("transient", 1, False), wl("synthetic"), wl("or_split_join"),
       wl("jump_self", 1), wl("jump_cycle", 2, 1), wl("jump_forward_diamond", 1), wl("suspend_gate"),
       wl("synthetic_gate"), wl("synthetic_multitask"), wl("synthetic2"), wl("synthetic_raise"),
       wl("jump_forward_multitask", 1), wl("jump_back_multitask", 1), wl("synthetic2_multitask"), wl("declared_after_ok")]
BIG = [wl("diamond_multitask"), wl("fail_branch"), wl("first_of"), wl("quorum"), wl("fan3"), wl("jump_side_fanin", 1),
       wl("multi_merge"), wl("mutex2"), wl("choice2")]
CRASH = [wl("diamond"), wl("multitask"), wl("poll", 2), wl("synthetic"), wl("jump_cycle", 2, 1), wl("fail_mid")]


E3_SCEN = {
    # a recovery sweep running concurrently with one handler, statement-level interleaving
    "sweep||RunTask(B)": (wl("diamond"), ["RunTask:B", "StartStage:C", "StartTask:C", "RunTask:C"], [1]),
    "sweep||StartTask(B)": (wl("diamond"), ["StartTask:B", "StartStage:C"], [1]),
    "sweep||CompleteTask(B)": (wl("diamond"), ["CompleteTask:B", "StartStage:C"], [1]),
    "sweep||StartStage(D)": (wl("diamond"), ["StartStage:D"], [1]),
    "sweep||CompleteStage(A)": (wl("diamond"), ["CompleteStage:A"], [1]),
    "sweep||RunTask(poll)": (wl("poll", 1), ["RunTask:A"], [1]),
    "sweep||ContinueParentStage(S)": (wl("synthetic"), ["ContinueParentStage:S"], [1]),
}


def e3_oracle(ctx):
    import collections

    v = []
    final = ctx["final"]
    if dumps(final.outcome()) not in ctx["ref"]["admissible"]:
        v.append({"kind": "outcome-differs-with-concurrent-sweep", "observed": final.outcome(), "sig": "outcome-differs"})
    ref_counts = collections.Counter((e["stage"], e["task"], e["step"]) for e in ctx["ref"]["ledger"])
    got = collections.Counter((e["stage"], e["task"], e["step"]) for e in ctx["ledger"])
    extra = {f"{k[0]}#{k[1]}:{k[2]}": n for k, n in got.items() if n > ref_counts.get(k, 0)}
    if extra:
        v.append({"kind": "extra-execution-with-concurrent-sweep", "extra": extra, "sig": "extra-execution"})
    from vlib.monitors import check_quiescent

    v.extend(check_quiescent(final))
    return v


def jobs(tier, seed):
    js = []
    for name in E3_SCEN:
        bound = 2 if tier == "quick" else 3
        shards = 2 if bound == 2 else 8
        for k in range(shards):
            js.append({"label": f"e3 {name}|preemptions<={bound}|shard{k}/{shards}", "kind": "e3", "scenario": name,
                       "bound": bound, "shard": [k, shards]})
    if tier == "quick":
        for spec in BIG:
            js.append({"label": f"{spec[0]}{spec[1]}|sweep1", "wl": spec, "budget": {"sweep": 1}, "kind": "e1"})
        for spec in WLS:
            js.append({"label": f"{spec[0]}{spec[1]}|sweep2", "wl": spec, "budget": {"sweep": 2}, "kind": "e1"})
        for spec in CRASH:
            js.append({"label": f"{spec[0]}{spec[1]}|crash:once-vs-twice", "wl": spec, "kind": "e2"})
    else:
        for spec in WLS + BIG:
            js.append({"label": f"{spec[0]}{spec[1]}|sweep2", "wl": spec, "budget": {"sweep": 2}, "kind": "e1",
                       "max_states": 400000})
            js.append({"label": f"{spec[0]}{spec[1]}|sweep1,noack1", "wl": spec, "budget": {"sweep": 1, "noack": 1},
                       "kind": "e1", "max_states": 400000})
        for spec in WLS + BIG:
            js.append({"label": f"{spec[0]}{spec[1]}|crash:once-vs-twice", "wl": spec, "kind": "e2"})
    return js


def build(job):
    w = world()
    workload = make_workload(job["wl"])
    # reference = everything reachable WITHOUT a sweep (all delivery orders, no fault)
    adm, ref_ledger, rex = reference_outcomes(w, workload, all_orders=True)
    mons = [OutcomeMonitor(adm), ExecOnceMonitor(),
            ExecCountMonitor(ref_ledger, ref_max=rex.ref_max, ref_status=rex.fifo_status)]
    return Explorer(w, workload, mons, job.get("budget"), max_states=job.get("max_states", 200000),
                    time_cap=job.get("time_cap", 600), sweep_at_quiescence=False)


def run_e2(job):
    w = world()
    workload = make_workload(job["wl"])
    eng = CrashEngine(w, workload)
    _final, base_ledger, snaps = eng.baseline()
    viols, evals = [], 0
    for s in snaps:
        res = {}
        for sweeps in (1, 2):
            final, post, _ = eng.recover(s, "expire-first", sweeps=sweeps)
            res[sweeps] = (dumps(final.view.outcome()), dict(ledger_counts(post)))
            evals += 1
        if res[1] != res[2]:
            viols.append({"kind": "recovery-twice-differs-from-once", "once": res[1][0], "twice": res[2][0],
                          "counts_once": {f"{k[0]}#{k[1]}": n for k, n in res[1][1].items()},
                          "counts_twice": {f"{k[0]}#{k[1]}": n for k, n in res[2][1].items()},
                          "sig": "sweep-not-idempotent",
                          "signature": "e2:sweep-not-idempotent@" + ":".join(s.action.split(":")[:2]),
                          "trace": [f"crash after commit {s.k} of step {s.step} ({s.action})"]})
    out, seen = [], set()
    for v in viols:
        if v["signature"] not in seen:
            seen.add(v["signature"])
            out.append(v)
    return {"states": len(snaps), "transitions": evals, "violations": out, "samples": [[f"{s.step}.{s.k}:{s.action}" for s in snaps[:5]]],
            "job_spec": job, "crash_points": len(snaps)}


def run_e3(job):
    from vlib.e3 import run_engine_scenario

    spec, skip, scripts = E3_SCEN[job["scenario"]]
    workload = make_workload(spec)
    s = run_engine_scenario(workload, skip, scripts, e3_oracle, job["bound"], shard=job.get("shard"),
                            time_cap=job.get("time_cap", 600), extra_scripts=["recovery"])
    viols, seen = [], set()
    for v in s.pop("_violations"):
        v["signature"] = f"e3:{v['sig']}@{job['scenario']}"
        if v["signature"] not in seen:
            seen.add(v["signature"])
            viols.append(v)
    s["violations"] = viols
    s["job_spec"] = job
    s["states"] = s["transitions"] = s.get("points", 0)
    return s


def run_job(job):
    if job["kind"] == "e3":
        return run_e3(job)
    if job["kind"] == "e2":
        return run_e2(job)
    ex = build(job).run()
    res = result_from(ex, "e1")
    res["job_spec"] = job
    return res


def aggregate(results, tier, seed, pre):
    return aggregate_e1(results, tier, seed, pre, extra_cov={
        "crash_points_once_vs_twice": sum(r.get("crash_points", 0) for r in results if "harness_error" not in r),
        "interleaving_executions": sum(r.get("executions", 0) for r in results if "harness_error" not in r)})


def replay(payload):
    job = payload["job"]
    if job["kind"] == "e3":
        r = run_e3(job)
        return {"violations": [v for v in r["violations"] if v["signature"] == payload["violation"].get("signature")]}
    if job["kind"] == "e2":
        r = run_e2(job)
        return {"violations": [v for v in r["violations"] if v["signature"] == payload["violation"].get("signature")]}
    ex = build(job)
    out, viols, st = ex.replay(payload["violation"]["trace"])
    return {"steps": out, "violations": viols, "final_outcome": st.view.outcome()}
