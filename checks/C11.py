"""C11 - mutex admits one running stage; a deferred choice has exactly one winner (E3 + E1)."""

from __future__ import annotations

import sqlite3

from vlib import workloads as W
from vlib.e1 import Explorer, Monitor
from vlib.e1jobs import make_workload, result_from, wl, world
from vlib.e3 import aggregate_e3, run_engine_scenario
from vlib.monitors import COMPLETE
from vlib.world import HOOKS

PROPERTY = "C11"

GROUPS = {"mutex2": ("mutex", ["X", "Y"]), "choice2": ("choice", ["X", "Y"]), "choice3": ("choice", ["X", "Y", "Z"]),
          "mutex3": ("mutex", ["X", "Y", "Z"])}


def mutex3():
    return W.Workload("mutex3", [W.St("A"), W.St("X", ("A",), mutex="m"), W.St("Y", ("A",), mutex="m"),
                                 W.St("Z", ("A",), mutex="m")], klass="racy")


W.mutex3 = mutex3


class GroupMonitor(Monitor):
    """E1: never two RUNNING stages per mutex key; at most one stage of a choice group ever starts."""

    name = "group"

    def __init__(self, kind, members):
        self.kind, self.members = kind, members

    def init(self, ex):
        return {"started": [], "ran": []}

    def step(self, ex, tr, ms):
        v = []
        started, ran = list(ms["started"]), set(ms["ran"])
        for (_s, tbl, ident, old, new) in tr.audit:
            lab = tr.post.labels.get(ident, ident)
            if tbl == "S" and lab in self.members and old == "NOT_STARTED" and new == "RUNNING":
                started.append(lab)
        for e in tr.ledger:
            if e["stage"] in self.members:
                ran.add(e["stage"])
        running = [m for m in self.members if tr.post.stages[m]["status"] == "RUNNING"]
        if self.kind == "mutex" and len(running) > 1:
            v.append({"kind": "two-stages-running-under-one-mutex", "running": running, "sig": "mutex-violated"})
        if self.kind == "choice" and len(set(started)) > 1:
            v.append({"kind": "deferred-choice-has-two-winners", "started": started, "sig": "choice-two-winners"})
        return {"started": started, "ran": sorted(ran)}, v

    def final(self, ex, view, ms, state):
        v = []
        if view.wf["status"] not in COMPLETE:
            return v  # C05's business
        if self.kind == "mutex":
            missing = [m for m in self.members if m not in ms["ran"]]
            if missing and view.wf["status"] == "SUCCEEDED":
                v.append({"kind": "mutex-waiter-never-ran", "missing": missing, "sig": "waiter-starved"})
            if view.wf["status"] != "SUCCEEDED":
                v.append({"kind": "mutex-workflow-did-not-succeed", "wf": view.wf["status"],
                          "stages": {m: view.stages[m]["status"] for m in self.members}, "sig": "mutex-not-succeeded"})
        else:
            winners = set(ms["started"])
            if len(winners) != 1:
                v.append({"kind": "deferred-choice-winner-count", "winners": sorted(winners), "sig": f"choice-winners={len(winners)}"})
            losers = [m for m in self.members if m not in winners]
            bad = {m: view.stages[m]["status"] for m in losers if view.stages[m]["status"] != "CANCELED"}
            if bad:
                v.append({"kind": "choice-loser-not-canceled", "stages": bad, "sig": "loser-not-canceled"})
        return v


def e3_oracle(kind, members, flags):
    def oracle(ctx):
        v = []
        if flags["mutex_violation"]:
            v.append({"kind": "two-stages-running-under-one-mutex-after-a-commit", "detail": flags["mutex_violation"],
                      "sig": "mutex-violated-at-commit"})
            flags["mutex_violation"] = None
        starts = [r[1] for r in ctx["audit"] if r[0] == "S" and r[1] in members and r[2] == "NOT_STARTED" and r[3] == "RUNNING"]
        final = ctx["final"]
        ran = {e["stage"] for e in ctx["ledger"] if e["stage"] in members}
        if kind == "choice":
            if len(set(starts)) != 1:
                v.append({"kind": "deferred-choice-winner-count", "started": starts, "sig": f"choice-winners={len(set(starts))}"})
            bad = {m: final.stages[m]["status"] for m in members if m not in starts and final.stages[m]["status"] != "CANCELED"}
            if bad:
                v.append({"kind": "choice-loser-not-canceled", "stages": bad, "sig": "loser-not-canceled"})
            if len(ran) > 1:
                v.append({"kind": "two-choice-branches-ran", "ran": sorted(ran), "sig": "choice-two-ran"})
        else:
            if final.wf["status"] != "SUCCEEDED" or ran != set(members):
                v.append({"kind": "mutex-stage-did-not-run", "ran": sorted(ran), "wf": final.wf["status"],
                          "sig": "waiter-starved"})
            # overlap check on the durable audit order: a member may only start when no other member is RUNNING
            running = set()
            for r in ctx["audit"]:
                if r[0] == "S" and r[1] in members:
                    if r[3] == "RUNNING":
                        running.add(r[1])
                        if len(running) > 1:
                            v.append({"kind": "two-stages-running-under-one-mutex", "running": sorted(running),
                                      "sig": "mutex-violated"})
                    elif r[2] == "RUNNING":
                        running.discard(r[1])
        return v
    return oracle


def install_commit_invariant(flags):
    def on_commit(conn):
        try:
            rows = sqlite3.Connection.execute(
                conn, "SELECT mutex_key, COUNT(*) FROM stage_executions WHERE status='RUNNING' AND mutex_key IS NOT NULL "
                      "GROUP BY execution_id, mutex_key HAVING COUNT(*) > 1").fetchall()
        except sqlite3.Error:
            return
        if rows:
            flags["mutex_violation"] = [tuple(r) for r in rows]
    HOOKS.on_commit = on_commit


E3_SCEN = {
    "mutex2: StartStage(X)||StartStage(Y)": ("mutex2", ["StartStage:X", "StartStage:Y"], [1, 1], False),
    "choice2: StartStage(X)||StartStage(Y)": ("choice2", ["StartStage:X", "StartStage:Y"], [1, 1], False),
    "choice3: StartStage(X)||StartStage(Y)||StartStage(Z)": ("choice3", ["StartStage:X", "StartStage:Y", "StartStage:Z"], [1, 1, 1], False),
    "mutex3: StartStage(X)||StartStage(Y)||StartStage(Z)": ("mutex3", ["StartStage:X", "StartStage:Y", "StartStage:Z"], [1, 1, 1], False),
    "choice2 + retention sweep": ("choice2", ["StartStage:X", "StartStage:Y"], [1, 1], True),
    "choice2: X runs to completion (its CancelStage(Y) still queued) || StartStage(Y) + retention sweep": (
        "choice2", ["StartStage:X", "StartStage:Y"],
        [["StartStage:Y"], ["StartStage:X", "StartTask:X", "RunTask:X", "CompleteTask:X", "CompleteStage:X"]], True),
    "mutex2: holder X runs to completion || StartStage(Y) + retention sweep": (
        "mutex2", ["StartStage:X", "StartStage:Y"],
        [["StartStage:Y"], ["StartStage:X", "StartTask:X", "RunTask:X", "CompleteTask:X", "CompleteStage:X"]], True),
    "mutex2 + retention sweep": ("mutex2", ["StartStage:X", "StartStage:Y"], [1, 1], True),
}


def jobs(tier, seed):
    js = []
    for name, (wname, _skip, scripts, retention) in E3_SCEN.items():
        n = len(scripts) + (1 if retention else 0)
        bound = (2 if n == 2 else 1) if tier == "quick" else (3 if n == 2 else 2)
        shards = 1 if bound <= 1 else (4 if bound == 2 else 16)
        for k in range(shards):
            js.append({"label": f"e3 {name}|preemptions<={bound}|shard{k}/{shards}", "kind": "e3", "scenario": name,
                       "bound": bound, "shard": [k, shards]})
    for wname in GROUPS:
        b = {"retention": 1} if tier == "quick" else {"retention": 1, "noack": 1}
        js.append({"label": f"e1 {wname}|all-orders,{'+'.join(b)}", "kind": "e1", "wl": wl(wname), "budget": b})
    js.sort(key=lambda j: (j["kind"] != "e3", -j.get("bound", 0)))
    return js


def run_job(job):
    # a mutex waiter legitimately re-queues itself while the holder runs; keep the engine's unrelated
    # "give up after max_stage_wait_retries x 15 s" timeout (1 h by default) out of reach
    from vlib import world as _w

    _w.DEFAULT_WAIT_RETRIES[0] = 20
    for wd in __import__("vlib.e1jobs", fromlist=["_WORLDS"])._WORLDS.values():
        wd.wait_retries = 20
    if job["kind"] == "e1":
        kind, members = GROUPS[job["wl"][0]]
        w = world()
        workload = make_workload(job["wl"])
        ex = Explorer(w, workload, [GroupMonitor(kind, members)], job["budget"], max_states=300000,
                      time_cap=job.get("time_cap", 600)).run()
        res = result_from(ex, "e1")
        res["job_spec"] = job
        res["executions"] = 0
        res["points"] = res["transitions"]
        return res
    wname, skip, scripts, retention = E3_SCEN[job["scenario"]]
    kind, members = GROUPS[wname]
    workload = make_workload(wl(wname))
    flags = {"mutex_violation": None}
    install_commit_invariant(flags)
    extra = None
    if retention:
        extra = "retention"
    try:
        s = run_engine_scenario(workload, skip, scripts, e3_oracle(kind, members, flags), job["bound"], shard=job.get("shard"),
                                time_cap=job.get("time_cap", 600), extra_scripts=[extra] if extra else None)
    finally:
        HOOKS.on_commit = None
    viols, seen = [], set()
    for v in s.pop("_violations"):
        v["signature"] = f"e3:{v['sig']}@{job['scenario']}"
        if v["signature"] not in seen:
            seen.add(v["signature"])
            viols.append(v)
    s["violations"] = viols
    s["job_spec"] = job
    return s


def aggregate(results, tier, seed, pre):
    good = [r for r in results if "harness_error" not in r]
    e1 = [r for r in good if r.get("job_spec", {}).get("kind") == "e1"]
    return aggregate_e3(results, extra={"e1_states": sum(r.get("states", 0) for r in e1),
                                        "e1_transitions": sum(r.get("transitions", 0) for r in e1)})


def replay(payload):
    r = run_job(payload["job"])
    want = payload["violation"].get("signature")
    return {"violations": [v for v in r["violations"] if v.get("signature") == want]}
