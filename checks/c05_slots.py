"""C05 addendum: 'explicitly waiting for a concurrency slot' (two workflows of one pipeline config,
max_concurrent_executions = 1), explored with E3: StartWorkflow(W2) racing CompleteWorkflow(W1) +
StartWaitingWorkflows.  A BUFFERED workflow is an explicit wait only while a peer actually holds
the slot; at quiescence nobody runs, so a workflow still BUFFERED then is silently stuck.

Self-contained (the E1 view assumes one workflow per image)."""

from __future__ import annotations

import json

from vlib import world as W
from vlib.e3 import FileWorld, IlvExplorer, cleanup_dir


def make_wf(world, name):
    from stabilize import StageExecution, TaskExecution, Workflow

    st = StageExecution(ref_id="A", name="A", type="v",
                        tasks=[TaskExecution.create(name="t", implementing_class="v_t", stage_start=True, stage_end=True)])
    wf = Workflow.create(application="verif", name=name, stages=[st], pipeline_config_id="cfg")
    wf.is_limit_concurrent = True
    wf.max_concurrent_executions = 1
    wf.keep_waiting_pipelines = True
    return wf


def pending(w):
    return [(r["id"], r["message_type"], json.loads(r["payload"])) for r in
            w.conn.execute("SELECT id, message_type, payload FROM queue_messages ORDER BY id")]


def deliver(w, pred):
    for (i, t, p) in pending(w):
        if pred(t, p):
            w.conn.execute("UPDATE queue_messages SET deliver_at = ? WHERE id = ?", (W.EPOCH, i))
            w.conn.commit()
            w.processor.process_one()
            w.normalise_time()
            return True
    return False


def prepare():
    """W1 RUNNING with CompleteWorkflow(W1) pending; W2 stored with StartWorkflow(W2) pending."""
    # same schema (monitor tables and triggers included) as the Worlds of the E1 jobs that share this process's
    # in-memory connection: a database image of another schema lineage deserialised into that connection leaves
    # sqlite's cached prepared statements pointing at the wrong pages (segfault in a later job of the same process)
    w = W.World(monitors=True)
    w.create_schema()
    c = w.conn
    for t in ("queue_messages", "queue_messages_dlq", "processed_messages", "task_executions", "stage_executions",
              "pipeline_executions"):
        c.execute(f"DELETE FROM {t}")
    c.commit()
    w.behaviours = {("A", "t"): {"kind": "ok"}}
    w.task_names = {"t"}
    w.incarnate()
    w1, w2 = make_wf(w, "w1"), make_wf(w, "w2")
    w.orchestrator.start(w1)
    w.orchestrator.start(w2)
    w.normalise_time()
    is_w1 = lambda t, p: p.get("execution_id") == w1.id  # noqa: E731
    n = 0
    while n < 50 and deliver(w, lambda t, p: is_w1(t, p) and t != "CompleteWorkflow"):
        n += 1
    left = [(t, p.get("execution_id") == w1.id) for _i, t, p in pending(w)]
    assert ("CompleteWorkflow", True) in left and ("StartWorkflow", False) in left, left
    return w.image(), w1.id, w2.id, dict(w.behaviours)


def slots_job(job):
    img, id1, id2, beh = prepare()
    stats = {"buffered_then_promoted": 0}

    def make_execution():
        fw = FileWorld(img, beh, {"t"})
        w = fw.w

        def worker_a():  # handles StartWorkflow(W2)
            c = w.conn
            w.processor.process_one.__self__  # noqa: B018
            # claim exactly StartWorkflow(W2): make it the oldest
            c.execute("UPDATE queue_messages SET deliver_at = ? WHERE message_type = 'StartWorkflow'", (W.EPOCH,))
            c.commit()
            try:
                w.processor.process_one()
            except Exception:
                pass

        def worker_b():  # handles CompleteWorkflow(W1) and then StartWaitingWorkflows
            for _ in range(2):
                try:
                    w.processor.process_one()
                except Exception:
                    pass

        def finish(sched):
            # sequential drain
            for _ in range(60):
                w.normalise_time()
                w.advance()
                w.expire()
                if not pending(w):
                    break
                try:
                    w.processor.process_one()
                except Exception:
                    pass
            rows = {r["id"]: r["status"] for r in w.conn.execute("SELECT id, status FROM pipeline_executions")}
            q = len(pending(w))
            fw.close()
            viols = []
            if rows[id2] == "BUFFERED" and rows[id1] != "RUNNING" and q == 0:
                viols.append({"kind": "workflow-stuck-BUFFERED-with-a-free-slot", "w1": rows[id1], "w2": rows[id2],
                              "sig": "buffered-with-free-slot"})
            elif rows[id2] not in ("SUCCEEDED",) or rows[id1] != "SUCCEEDED":
                viols.append({"kind": "workflows-not-finished", "w1": rows[id1], "w2": rows[id2], "queue": q,
                              "sig": f"slots-not-finished:{rows[id1]},{rows[id2]}"})
            return viols, f"{rows[id1]},{rows[id2]}"

        return [worker_a, worker_b], finish

    ex = IlvExplorer(make_execution, job["bound"], time_cap=job.get("time_cap", 900),
                     shard=tuple(job["shard"]) if job.get("shard") else None).run()
    cleanup_dir()
    s = ex.summary()
    viols, seen = [], set()
    for v in ex.violations:
        v["signature"] = f"e3:{v['sig']}@StartWorkflow(W2)||CompleteWorkflow(W1)+StartWaitingWorkflows"
        if v["signature"] not in seen:
            seen.add(v["signature"])
            viols.append(v)
    s["violations"] = viols
    s["states"] = s["transitions"] = s["points"]
    s["samples"] = ex.samples[:1]
    s["outcome_classes"] = dict(ex.outcomes)
    s["job_spec"] = job
    return s
