"""C14 - transient failures: bounded number of retries, saved progress is kept (E1)."""

from __future__ import annotations

from vlib.e1 import Explorer, Monitor
from vlib.e1jobs import aggregate_e1, make_workload, result_from, wl, world
from vlib.monitors import COMPLETE

PROPERTY = "C14"
MAX_ATTEMPTS = 10  # queue/messages.py: Message.max_attempts default ("documented maximum")


class TransientMonitor(Monitor):
    """attempt n sees the progress attached by attempt n-1; executions <= max_attempts;
    beyond the limit task, stage and workflow end terminally; below it they succeed."""

    name = "transient"

    def __init__(self, stage, task, k, ctx, kind="transient"):
        self.stage, self.task, self.k, self.ctx, self.kind = stage, task, k, ctx, kind

    def step(self, ex, tr, ms):
        v = []
        for e in tr.ledger:
            if e["stage"] != self.stage or e["task"] != self.task:
                continue
            n = e["nth"]
            if n + 1 > MAX_ATTEMPTS and self.kind == "transient":
                v.append({"kind": "retried-beyond-limit", "executions": n + 1, "limit": MAX_ATTEMPTS,
                          "sig": "retried-beyond-limit"})
            key = "_tc" if self.kind == "transient" else "_pc"
            if self.ctx:
                seen = e["ctx"].get(key, 0)
                if seen != n:
                    v.append({"kind": "saved-progress-lost", "attempt": n + 1, "saw": seen, "expected": n,
                              "sig": f"saved-progress-lost:{self.kind}"})
        return ms, v

    def final(self, ex, view, ms, state):
        v = []
        st = view.stages[self.stage]
        tstat = [t[1] for t in st["tasks"] if t[0] == self.task][0]
        wf = view.wf["status"]
        if self.kind == "poll":
            if wf != "SUCCEEDED":
                v.append({"kind": "polling-task-did-not-finish", "wf": wf, "sig": "poll-not-finished"})
            return v
        if self.k >= MAX_ATTEMPTS:
            if not (tstat == "TERMINAL" and st["status"] == "TERMINAL" and wf == "TERMINAL"):
                v.append({"kind": "not-terminal-beyond-limit", "task": tstat, "stage": st["status"], "wf": wf,
                          "k": self.k, "sig": "not-terminal-beyond-limit"})
        elif self.k < MAX_ATTEMPTS - 1:
            if not (tstat == "SUCCEEDED" and st["status"] == "SUCCEEDED" and wf == "SUCCEEDED"):
                v.append({"kind": "failed-below-limit", "task": tstat, "stage": st["status"], "wf": wf, "k": self.k,
                          "sig": "failed-below-limit"})
        else:  # k == limit-1: the last permitted attempt; either reading of the bound is accepted
            if wf not in COMPLETE:
                v.append({"kind": "not-final-at-limit", "wf": wf, "sig": "not-final-at-limit"})
        return v


def jobs(tier, seed):
    js = []
    ks = list(range(0, MAX_ATTEMPTS + 3))
    for k in ks:
        for ctx in (True, False):
            js.append({"label": f"transient k={k} ctx={ctx} fifo+all-orders", "wl": wl("transient", k, ctx), "k": k,
                       "ctx": ctx, "pos": 0, "budget": {}})
    for pos in (0, 1, 2):
        for k in (1, 2, MAX_ATTEMPTS, MAX_ATTEMPTS + 1):
            js.append({"label": f"transient k={k} pos={pos}of3 sibling", "wl": wl("transient", k, True, pos, 3, True),
                       "k": k, "ctx": True, "pos": pos, "budget": {}})
    for k in (1, 2, 3):
        js.append({"label": f"poll k={k}", "wl": wl("poll", k), "k": k, "ctx": True, "pos": 0, "budget": {},
                   "kind": "poll"})
    # a worker death at any point of any delivery (poll / before mark / before ack), then lock expiry and
    # redelivery: the carried retry count must survive the redelivery of a retry row
    for k, ctx in ((MAX_ATTEMPTS, False), (3, True)):
        js.append({"label": f"transient k={k} ctx={ctx} worker-death1", "wl": wl("transient", k, ctx), "k": k,
                   "ctx": ctx, "pos": 0, "budget": {"noack": 1}, "max_states": 400000})
    # crash after every commit of the polling / retrying deliveries: progress and next attempt commit together
    for kind_, spec in (("poll", wl("poll", 2)), ("transient", wl("transient", 2, True)), ("poll", wl("poll", 3))):
        js.append({"label": f"{spec[0]}{spec[1]}|crash images of the RunTask steps", "wl": spec, "e2": True, "kind_": kind_,
                   "k": spec[1][0], "ctx": True, "pos": 0})
    if tier == "thorough":
        for k in (1, 2, 3, MAX_ATTEMPTS - 1, MAX_ATTEMPTS):
            for ctx in (True, False):
                js.append({"label": f"transient k={k} ctx={ctx} noack1", "wl": wl("transient", k, ctx, 0, 1, True),
                           "k": k, "ctx": ctx, "pos": 0, "budget": {"noack": 1}, "max_states": 400000})
                js.append({"label": f"transient k={k} ctx={ctx} early1,sweep1", "wl": wl("transient", k, ctx),
                           "k": k, "ctx": ctx, "pos": 0, "budget": {"early": 1, "sweep": 1}})
        for k in (1, 2):
            js.append({"label": f"poll k={k} noack1", "wl": wl("poll", k), "k": k, "ctx": True, "pos": 0,
                       "budget": {"noack": 1}, "kind": "poll"})
    return js


def run_e2(job):
    """Saved progress and the scheduling of the next attempt commit together: at every commit image taken while a
    RunTask delivery is handled whose task reported 'still running' / raised TransientError with progress n+1, once
    that delivery carries its processed record (so a redelivery will be skipped) the stage's durable context holds
    the progress; and after restart + recovery from every such image the next attempt sees it."""
    from vlib.e2 import CrashEngine
    from vlib.view import take_view
    from vlib.world import unpack

    w = world()
    w.wait_retries = 20
    workload = make_workload(job["wl"])
    key = "_pc" if job["kind_"] == "poll" else "_tc"
    eng = CrashEngine(w, workload)
    final, ledger, snaps = eng.baseline()
    viols, evals = [], 0
    for s in snaps:
        if not s.action.startswith("d:RunTask:A:") or s.ledger_len == 0:
            continue
        e = ledger[s.ledger_len - 1]
        step = str(e.get("step") or "")
        if not (step.startswith("running") or step.startswith("transient")) or e["stage"] != "A":
            continue
        n = int(step.replace("running", "").replace("transient", ""))
        w.load(unpack(s.blob))
        view = take_view(w)
        inflight = [m for m in view.queue if m["type"] == "RunTask" and m["elig"] == "locked"]
        marked = (not inflight) or all(m["processed"] for m in inflight)
        evals += 1
        saved = view.stages["A"]["ctx"].get(key, 0)
        where = {"crash_after_commit": s.k, "step": s.step, "handling": s.action, "attempt": n + 1}
        if marked and saved != n + 1:
            viols.append({"kind": "delivery-recorded-processed-before-its-progress-was-saved", "durable": saved,
                          "expected": n + 1, "where": where, "sig": f"progress-not-saved-with-mark:{job['kind_']}"})
        for order in ("restart-first", "expire-first"):
            f2, post, _ = eng.recover(s, order, ec=s.ec)
            evals += 1
            seen = [x["ctx"].get(key, 0) for x in post if x["stage"] == "A" and x["task"] == e["task"]]
            # after the crash the first new attempt sees the progress of the last attempt whose delivery was recorded
            if marked and seen and seen[0] < n + 1:
                viols.append({"kind": "saved-progress-lost-across-crash", "next_attempt_saw": seen[0], "expected": n + 1,
                              "where": dict(where, order=order), "sig": f"saved-progress-lost-after-crash:{job['kind_']}"})
    out, seen_sig = [], set()
    for v in viols:
        v["signature"] = "e2:" + v["sig"]
        v["trace"] = [str(v["where"])]
        if v["signature"] not in seen_sig:
            seen_sig.add(v["signature"])
            out.append(v)
    return {"states": len(snaps), "transitions": evals, "violations": out, "samples": [], "job_spec": job,
            "crash_points": len(snaps)}


def build(job):
    w = world()
    # the engine gives up on a workflow after max_stage_wait_retries x 15 s (1 h by default); a task
    # that backs off <= 12 times must not hit that unrelated timeout, so keep the ratio realistic
    w.wait_retries = 20
    workload = make_workload(job["wl"])
    kind = job.get("kind", "transient")
    tname = "t" if kind == "poll" else f"t{job['pos']}"
    mon = TransientMonitor("A", tname, job["k"], job["ctx"], kind)
    return Explorer(w, workload, [mon], job.get("budget"), max_states=job.get("max_states", 150000),
                    time_cap=job.get("time_cap", 600), die_points=("poll", "mark", "ack"))


def run_job(job):
    if job.get("e2"):
        return run_e2(job)
    ex = build(job).run()
    res = result_from(ex, "e1")
    res["job_spec"] = job
    return res


def aggregate(results, tier, seed, pre):
    return aggregate_e1(results, tier, seed, pre, extra_cov={"max_attempts": MAX_ATTEMPTS})


def replay(payload):
    if payload["job"].get("e2"):
        r = run_e2(payload["job"])
        return {"violations": [v for v in r["violations"] if v["signature"] == payload["violation"].get("signature")]}
    ex = build(payload["job"])
    out, viols, st = ex.replay(payload["violation"]["trace"])
    return {"steps": out, "violations": viols, "final_outcome": st.view.outcome()}
