"""C14 - transient failures: bounded number of retries, saved progress is kept (E1)."""

from __future__ import annotations

from vlib.e1 import Explorer, Monitor
from vlib.e1jobs import aggregate_e1, make_workload, result_from, wl, world
from vlib.monitors import COMPLETE

PROPERTY = "C14"
MAX_ATTEMPTS = 10  # queue/messages.py: Message.max_attempts default ("documented maximum")


class TransientMonitor(Monitor):
    """attempt n sees the progress attached by attempt n-1; executions <= max_attempts;
    beyond the limit task, stage and workflow end terminally; below it they succeed."""

    name = "transient"

    def __init__(self, stage, task, k, ctx, kind="transient"):
        self.stage, self.task, self.k, self.ctx, self.kind = stage, task, k, ctx, kind

    def step(self, ex, tr, ms):
        v = []
        for e in tr.ledger:
            if e["stage"] != self.stage or e["task"] != self.task:
                continue
            n = e["nth"]
            if n + 1 > MAX_ATTEMPTS and self.kind == "transient":
                v.append({"kind": "retried-beyond-limit", "executions": n + 1, "limit": MAX_ATTEMPTS,
                          "sig": "retried-beyond-limit"})
            key = "_tc" if self.kind == "transient" else "_pc"
            if self.ctx:
                seen = e["ctx"].get(key, 0)
                if seen != n:
                    v.append({"kind": "saved-progress-lost", "attempt": n + 1, "saw": seen, "expected": n,
                              "sig": f"saved-progress-lost:{self.kind}"})
        return ms, v

    def final(self, ex, view, ms, state):
        v = []
        st = view.stages[self.stage]
        tstat = [t[1] for t in st["tasks"] if t[0] == self.task][0]
        wf = view.wf["status"]
        if self.kind == "poll":
            if wf != "SUCCEEDED":
                v.append({"kind": "polling-task-did-not-finish", "wf": wf, "sig": "poll-not-finished"})
            return v
        if self.k >= MAX_ATTEMPTS:
            if not (tstat == "TERMINAL" and st["status"] == "TERMINAL" and wf == "TERMINAL"):
                v.append({"kind": "not-terminal-beyond-limit", "task": tstat, "stage": st["status"], "wf": wf,
                          "k": self.k, "sig": "not-terminal-beyond-limit"})
        elif self.k < MAX_ATTEMPTS - 1:
            if not (tstat == "SUCCEEDED" and st["status"] == "SUCCEEDED" and wf == "SUCCEEDED"):
                v.append({"kind": "failed-below-limit", "task": tstat, "stage": st["status"], "wf": wf, "k": self.k,
                          "sig": "failed-below-limit"})
        else:  # k == limit-1: the last permitted attempt; either reading of the bound is accepted
            if wf not in COMPLETE:
                v.append({"kind": "not-final-at-limit", "wf": wf, "sig": "not-final-at-limit"})
        return v


def jobs(tier, seed):
    js = []
    ks = list(range(0, MAX_ATTEMPTS + 3))
    for k in ks:
        for ctx in (True, False):
            js.append({"label": f"transient k={k} ctx={ctx} fifo+all-orders", "wl": wl("transient", k, ctx), "k": k,
                       "ctx": ctx, "pos": 0, "budget": {}})
    for pos in (0, 1, 2):
        for k in (1, 2, MAX_ATTEMPTS, MAX_ATTEMPTS + 1):
            js.append({"label": f"transient k={k} pos={pos}of3 sibling", "wl": wl("transient", k, True, pos, 3, True),
                       "k": k, "ctx": True, "pos": pos, "budget": {}})
    for k in (1, 2, 3):
        js.append({"label": f"poll k={k}", "wl": wl("poll", k), "k": k, "ctx": True, "pos": 0, "budget": {},
                   "kind": "poll"})
    # a worker death at any point of any delivery (poll / before mark / before ack), then lock expiry and
    # redelivery: the carried retry count must survive the redelivery of a retry row
    for k, ctx in ((MAX_ATTEMPTS, False), (3, True)):
        js.append({"label": f"transient k={k} ctx={ctx} worker-death1", "wl": wl("transient", k, ctx), "k": k,
                   "ctx": ctx, "pos": 0, "budget": {"noack": 1}, "max_states": 400000})
    if tier == "thorough":
        for k in (1, 2, 3, MAX_ATTEMPTS - 1, MAX_ATTEMPTS):
            for ctx in (True, False):
                js.append({"label": f"transient k={k} ctx={ctx} noack1", "wl": wl("transient", k, ctx, 0, 1, True),
                           "k": k, "ctx": ctx, "pos": 0, "budget": {"noack": 1}, "max_states": 400000})
                js.append({"label": f"transient k={k} ctx={ctx} early1,sweep1", "wl": wl("transient", k, ctx),
                           "k": k, "ctx": ctx, "pos": 0, "budget": {"early": 1, "sweep": 1}})
        for k in (1, 2):
            js.append({"label": f"poll k={k} noack1", "wl": wl("poll", k), "k": k, "ctx": True, "pos": 0,
                       "budget": {"noack": 1}, "kind": "poll"})
    return js


def build(job):
    w = world()
    # the engine gives up on a workflow after max_stage_wait_retries x 15 s (1 h by default); a task
    # that backs off <= 12 times must not hit that unrelated timeout, so keep the ratio realistic
    w.wait_retries = 20
    workload = make_workload(job["wl"])
    kind = job.get("kind", "transient")
    tname = "t" if kind == "poll" else f"t{job['pos']}"
    mon = TransientMonitor("A", tname, job["k"], job["ctx"], kind)
    return Explorer(w, workload, [mon], job.get("budget"), max_states=job.get("max_states", 150000),
                    time_cap=job.get("time_cap", 1200), die_points=("poll", "mark", "ack"))


def run_job(job):
    ex = build(job).run()
    res = result_from(ex, "e1")
    res["job_spec"] = job
    return res


def aggregate(results, tier, seed, pre):
    return aggregate_e1(results, tier, seed, pre, extra_cov={"max_attempts": MAX_ATTEMPTS})


def replay(payload):
    ex = build(payload["job"])
    out, viols, st = ex.replay(payload["violation"]["trace"])
    return {"steps": out, "violations": viols, "final_outcome": st.view.outcome()}
