"""C18 - persistent signals are never lost; a suspended stage resumes once per signal (E1 + E2)."""

from __future__ import annotations

from vlib.e1 import Explorer, Monitor
from vlib.e1jobs import aggregate_e1, make_workload, result_from, wl, world
from vlib.e2 import CrashEngine
from vlib.monitors import COMPLETE, diagnose
from vlib.world import dumps

PROPERTY = "C18"
DATA = {"who": "verif", "n": 7}


class SignalMonitor(Monitor):
    name = "signal"

    def __init__(self, persistent, stage="G", task="t"):
        self.persistent, self.stage, self.task = persistent, stage, task

    def init(self, ex):
        return {"handled_when": None, "suspends": 0, "resumes": 0, "payload_ok": None}

    def step(self, ex, tr, ms):
        ms = dict(ms)
        v = []
        if tr.msg is not None and type(tr.msg).__name__ == "SignalStage" and tr.exc is None:
            already = any(str(m["id"]) == str(tr.msg.message_id) and m["processed"] for m in tr.pre.queue)
            if not already and ms["handled_when"] is None:
                ms["handled_when"] = tr.pre.stages[self.stage]["status"]
        for e in tr.ledger:
            if e["stage"] == self.stage and e["task"] != self.task and ms["resumes"] == 0:
                v.append({"kind": "task-behind-the-gate-ran-before-any-signal", "task": e["task"], "handling": tr.action,
                          "sig": "ran-past-gate"})
            if e["stage"] == self.stage and e["task"] == self.task:
                if e["step"] == "suspend":
                    ms["suspends"] += 1
                elif e["step"] == "resumed":
                    ms["resumes"] += 1
                    ms["payload_ok"] = e["ctx"].get("_signal_data") == DATA and e["ctx"].get("_signal_name") == "go"
                    if ms["resumes"] > 1:
                        v.append({"kind": "stage-resumed-more-than-once-per-signal", "resumes": ms["resumes"],
                                  "sig": "resumed-twice"})
        return ms, v

    def final(self, ex, view, ms, state):
        v = []
        g = view.stages[self.stage]
        wf = view.wf["status"]
        sent = state.budget["signal"] == 0
        if not sent:
            if g["status"] != "SUSPENDED" or wf in COMPLETE:
                v.append({"kind": "not-suspended-while-waiting-for-signal", "stage": g["status"], "wf": wf,
                          "sig": "not-suspended-without-signal:" + diagnose(view)})
            return v
        when = ms["handled_when"]
        if self.persistent or when == "SUSPENDED":
            kind = "persistent" if self.persistent else "transient-while-suspended"
            if ms["resumes"] != 1 or wf != "SUCCEEDED":
                v.append({"kind": "signal-lost", "signal": kind, "handled_when_stage_was": when, "resumes": ms["resumes"],
                          "suspends": ms["suspends"], "stage": g["status"], "wf": wf,
                          "sig": f"signal-lost:{kind}:handled-at-{when}"})
            elif not ms["payload_ok"]:
                v.append({"kind": "resumed-without-signal-payload", "sig": "payload-missing"})
            if ms["resumes"] == 1 and g["ctx"].get("_buffered_signals"):
                v.append({"kind": "consumed-signal-still-buffered", "buffer": g["ctx"].get("_buffered_signals"),
                          "sig": "buffer-not-empty"})
            if ms["suspends"] > 1:
                v.append({"kind": "suspending-task-suspended-more-than-once", "suspends": ms["suspends"],
                          "sig": "suspended-twice"})
        else:
            if ms["resumes"] != 0 or g["status"] != "SUSPENDED":
                v.append({"kind": "transient-signal-had-effect-while-not-suspended", "handled_when_stage_was": when,
                          "resumes": ms["resumes"], "stage": g["status"], "sig": f"transient-effect:handled-at-{when}"})
        return v


class MultiSignalMonitor(Monitor):
    """N persistent signals with distinct payloads to a task that consumes one per suspension: each is
    consumed exactly once; fewer than N handled -> the stage is durably SUSPENDED."""

    name = "signal"

    def __init__(self, need, stage="G"):
        self.need, self.stage = need, stage

    def init(self, ex):
        return {}

    def step(self, ex, tr, ms):
        return ms, []

    def final(self, ex, view, ms, state):
        v = []
        g = view.stages[self.stage]
        wf = view.wf["status"]
        sent = self.need - state.budget["signal"]
        got = g["out"].get("received") if g["status"] == "SUCCEEDED" else g["ctx"].get("received", [])
        ns = sorted(x.get("n") for x in (got or []))
        if len(set(ns)) != len(ns):
            v.append({"kind": "signal-consumed-more-than-once", "received": ns, "sig": "signal-consumed-twice"})
        if any(n not in range(1, sent + 1) for n in ns):
            v.append({"kind": "received-a-signal-never-sent", "received": ns, "sent": sent, "sig": "signal-invented"})
        if sent < self.need:
            if g["status"] != "SUSPENDED" or wf in COMPLETE:
                v.append({"kind": "not-suspended-while-waiting-for-signal", "stage": g["status"], "wf": wf, "sent": sent,
                          "sig": "not-suspended-without-signal:" + diagnose(view)})
            elif ns != list(range(1, sent + 1)):
                v.append({"kind": "signal-lost", "signal": "persistent", "sent": sent, "received": ns,
                          "buffer": g["ctx"].get("_buffered_signals"), "sig": "signal-lost:persistent:partial"})
            return v
        if g["status"] != "SUCCEEDED" or wf != "SUCCEEDED" or ns != list(range(1, self.need + 1)):
            v.append({"kind": "signal-lost", "signal": "persistent", "sent": sent, "received": ns, "stage": g["status"],
                      "wf": wf, "buffer": g["ctx"].get("_buffered_signals"), "sig": "signal-lost:persistent:of-several"})
        elif g["ctx"].get("_buffered_signals"):
            v.append({"kind": "consumed-signal-still-buffered", "buffer": g["ctx"].get("_buffered_signals"),
                      "sig": "buffer-not-empty"})
        return v


def multi_spec(need):
    return [{"stage": "G", "persistent": True, "name": "go", "data": {"n": i + 1}} for i in range(need)]


def spec(persistent):
    return [{"stage": "G", "persistent": persistent, "name": "go", "data": DATA}]


def jobs(tier, seed):
    js = []
    for p in (True, False):
        tag = "persistent" if p else "transient"
        js.append({"label": f"gate|{tag}|signal-anywhere", "wl": wl("suspend_gate"), "persistent": p,
                   "budget": {"signal": 1}, "kind": "e1"})
        js.append({"label": f"gate|{tag}|signal-anywhere,noack1", "wl": wl("suspend_gate"), "persistent": p,
                   "budget": {"signal": 1, "noack": 1}, "kind": "e1"})
    # a second task behind the gate and a recovery sweep at any moment; a gate reached by a forward jump
    for p in (True, False):
        tag = "persistent" if p else "transient"
        js.append({"label": f"gate_multi|{tag}|signal-anywhere,sweep1", "wl": wl("suspend_gate_multi"), "persistent": p,
                   "budget": {"signal": 1, "sweep": 1}, "kind": "e1"})
    js.append({"label": "jump_forward_gate|persistent|signal-anywhere", "wl": wl("jump_forward_gate"), "persistent": True,
               "budget": {"signal": 1}, "kind": "e1"})
    js.append({"label": "gate2|2 persistent signals|signals-anywhere", "wl": wl("suspend_gate_n", 2), "multi": 2,
               "persistent": True, "budget": {"signal": 2}, "kind": "e1"})
    js.append({"label": "gate2|2 persistent signals|signals-anywhere,noack1", "wl": wl("suspend_gate_n", 2), "multi": 2,
               "persistent": True, "budget": {"signal": 2, "noack": 1}, "kind": "e1", "max_states": 600000})
    js.append({"label": "gate3|3 persistent signals|signals-anywhere", "wl": wl("suspend_gate_n", 3), "multi": 3,
               "persistent": True, "budget": {"signal": 3}, "kind": "e1", "max_states": 600000})
    if tier == "thorough":
        js.append({"label": "gate3|3 persistent signals|signals-anywhere,noack1", "wl": wl("suspend_gate_n", 3), "multi": 3,
                   "persistent": True, "budget": {"signal": 3, "noack": 1}, "kind": "e1", "max_states": 900000})
    js.append({"label": "gate|persistent|crash-images", "wl": wl("suspend_gate"), "persistent": True, "kind": "e2",
               "pairs": tier == "thorough"})
    from checks import C07

    for name in C07.ENGINE:
        if not name.startswith("SignalStage"):
            continue
        bound = 2 if tier == "quick" else 3
        shards = 4 if bound == 2 else 16
        for k in range(shards):
            js.append({"label": f"e3 {name}|preemptions<={bound}|shard{k}/{shards}", "kind": "e3", "scenario": name,
                       "bound": bound, "shard": [k, shards]})
    if tier == "thorough":
        for p in (True, False):
            tag = "persistent" if p else "transient"
            js.append({"label": f"gate|{tag}|signal-anywhere,noack1,sweep1", "wl": wl("suspend_gate"), "persistent": p,
                       "budget": {"signal": 1, "noack": 1, "sweep": 1}, "kind": "e1", "max_states": 400000})
            js.append({"label": f"gate|{tag}|signal-anywhere,noack2", "wl": wl("suspend_gate"), "persistent": p,
                       "budget": {"signal": 1, "noack": 2}, "kind": "e1", "max_states": 400000})
    return js


def build(job):
    w = world()
    workload = make_workload(job["wl"])
    if job.get("multi"):
        return Explorer(w, workload, [MultiSignalMonitor(job["multi"])], job.get("budget"),
                        signal_spec=multi_spec(job["multi"]), max_states=job.get("max_states", 200000),
                        time_cap=job.get("time_cap", 600))
    return Explorer(w, workload, [SignalMonitor(job["persistent"])], job.get("budget"), signal_spec=spec(job["persistent"]),
                    max_states=job.get("max_states", 200000), time_cap=job.get("time_cap", 600))


def run_e2(job):
    """Every crash image of a run in which a persistent signal is sent at each of three moments
    (before the gate starts, while it runs, after it suspended)."""
    w = world()
    workload = make_workload(job["wl"])
    viols, evals, points = [], 0, 0
    for moment in ("before-start", "after-suspend", "with-runtask"):
        eng = CrashEngine(w, workload, signal_spec=spec(True), budget={"signal": 1})
        ex = eng.ex
        # schedule: FIFO, the signal is injected at the chosen moment, SignalStage delivered FIFO

        def pick(st, acts, step_no, _m=moment):
            names = [a[0] for a in acts]
            sig = [a for a in acts if a[0].startswith("signal:")]
            deliver = sorted([a for a in acts if a[0].startswith("d:")], key=lambda a: a[1])
            gstat = st.view.stages["G"]["status"]
            if sig:
                if _m == "before-start":
                    return sig[0]
                if _m == "with-runtask" and any(n.startswith("d:RunTask:G") for n in names):
                    return sig[0]
                if _m == "after-suspend" and gstat == "SUSPENDED":
                    return sig[0]
            if deliver:
                return deliver[0]
            return [a for a in acts if not a[0].startswith("signal:")][0] if len(acts) > len(sig) else acts[0]

        eng.pick = pick
        st = ex.initial()
        # drive until quiescent AND signal sent
        final, ledger, snaps = eng.drive(st, record=True)
        if final.budget["signal"] != 0:
            # quiescent while suspended: send now, continue
            final, led2, sn2 = eng.drive(final, record=True, pre_actions=[a[0] for a in ex.enabled(final) if a[0].startswith("signal:")][:1], base_ledger_len=len(ledger))
            ledger, snaps = ledger + led2, snaps + sn2
        base = final.view.outcome()
        if base["wf"] != "SUCCEEDED":
            viols.append({"kind": "signal-lost-in-uninterrupted-run", "moment": moment, "outcome": base,
                          "where": {"handling": "baseline", "moment": moment}, "sig": f"signal-lost-baseline:{moment}"})
            continue
        points += len(snaps)
        sig_pos = next(i for i, t in enumerate(final.trace) if t.startswith("signal:"))
        # an image contains the send iff the send precedes the action in flight when the image was taken
        sent_idx = next((i for i, sn in enumerate(snaps) if sn.tlen > sig_pos), len(snaps))
        eng.budget_at = lambda sn, _p=sig_pos: {"signal": 0} if sn.tlen > _p else None
        for i, s in enumerate(snaps):
            for order in ("restart-first", "expire-first"):
                # the signal budget is spent iff the crash image already contains it
                f2, post, _ = eng.recover(s, order)
                evals += 1
                pre = ledger[: s.ledger_len]
                sig_in_image = True  # the SignalStage message or its effect is durable in images taken after the send
                full = pre + post
                resumes = sum(1 for e in full if e["stage"] == "G" and e["step"] == "resumed")
                wfst = f2.view.wf["status"]
                sent_before = i >= sent_idx
                inflight = s.action.startswith("d:RunTask:G")
                where = {"moment": moment, "crash_after_commit": s.k, "step": s.step, "handling": s.action, "order": order}
                if sent_before:
                    if wfst != "SUCCEEDED" or not (1 <= resumes <= (2 if inflight else 1)):
                        viols.append({"kind": "signal-lost-across-crash", "wf": wfst, "resumes": resumes,
                                      "stage": f2.view.stages["G"]["status"], "where": where,
                                      "sig": f"signal-lost-after-crash:{diagnose(f2.view)}"})
                    elif f2.view.stages["G"]["ctx"].get("_buffered_signals"):
                        # one signal was sent and has been consumed: a copy left in the buffer would resume a later
                        # suspension a second time
                        viols.append({"kind": "consumed-signal-still-buffered-after-crash",
                                      "buffer": f2.view.stages["G"]["ctx"].get("_buffered_signals"), "where": where,
                                      "sig": "buffer-not-empty-after-crash"})
                else:
                    if f2.view.stages["G"]["status"] not in ("SUSPENDED",) and wfst != "SUCCEEDED":
                        # signal not yet sent at the crash: the gate must end up durably SUSPENDED (still waiting)
                        viols.append({"kind": "gate-not-suspended-after-crash", "stage": f2.view.stages["G"]["status"],
                                      "wf": wfst, "where": where, "sig": f"not-suspended-after-crash:{diagnose(f2.view)}"})
    out, seen = [], set()
    for v in viols:
        h = v["where"]["handling"]
        v["signature"] = f"e2:{v['sig']}@{':'.join(h.split(':')[:2])}"
        v["trace"] = [str(v["where"])]
        if v["signature"] not in seen:
            seen.add(v["signature"])
            out.append(v)
    return {"states": points, "transitions": evals, "violations": out, "samples": [], "crash_points": points,
            "job_spec": job}


def run_job(job):
    if job["kind"] == "e3":
        from checks import C07

        r = C07.run_job(dict(job, kind="engine"))
        r["job_spec"] = job
        r["states"] = r["transitions"] = r.get("points", 0)
        return r
    if job["kind"] == "e2":
        return run_e2(job)
    ex = build(job).run()
    res = result_from(ex, "e1")
    res["job_spec"] = job
    return res


def aggregate(results, tier, seed, pre):
    good = [r for r in results if "harness_error" not in r]
    return aggregate_e1(results, tier, seed, pre, extra_cov={
        "crash_points": sum(r.get("crash_points", 0) for r in good),
        "interleaving_executions": sum(r.get("executions", 0) for r in good if r.get("job_spec", {}).get("kind") == "e3")})


def replay(payload):
    job = payload["job"]
    if job["kind"] == "e3":
        r = run_job(job)
        return {"violations": [v for v in r["violations"] if v["signature"] == payload["violation"].get("signature")]}
    if job["kind"] == "e2":
        r = run_e2(job)
        return {"violations": [v for v in r["violations"] if v["signature"] == payload["violation"].get("signature")]}
    ex = build(job)
    out, viols, st = ex.replay(payload["violation"]["trace"])
    return {"steps": out, "violations": viols, "final_outcome": st.view.outcome()}
