"""C13 - events and the state they describe commit together (E2: crash images + statement-level faults)."""

from __future__ import annotations

import json
import sqlite3

from vlib.e1jobs import make_workload, wl, world
from vlib.e2 import CrashEngine
from vlib.monitors import COMPLETE
from vlib.view import take_view
from vlib.world import HOOKS, pack, unpack

PROPERTY = "C13"

COMPLETION_EVENTS = ("task.completed", "task.failed", "stage.completed", "stage.failed")
NATURAL = {"SUCCEEDED", "FAILED_CONTINUE", "TERMINAL", "STOPPED"}


def invariant(w, workload_has_jumps, bus_log, where):
    """Checked on the current database image."""
    v = []
    c = w.conn
    view = take_view(w)
    rows = c.execute("SELECT sequence,event_type,entity_type,entity_id,data FROM events ORDER BY sequence").fetchall()
    seqs = [r["sequence"] for r in rows]
    if len(set(seqs)) != len(seqs) or seqs != sorted(seqs):
        v.append({"kind": "event-sequence-not-unique-increasing", "sig": "sequence-order"})
    status = {}
    for lab, s in view.stages.items():
        status[view.stage_ids[lab]] = ("stage", lab, s["status"])
    for r in c.execute("SELECT id,status FROM task_executions"):
        status[r["id"]] = ("task", view.labels.get(r["id"], r["id"]), r["status"])
    latest = {}
    for r in rows:
        et = r["event_type"]
        if et in COMPLETION_EVENTS:
            latest[r["entity_id"]] = (et, json.loads(r["data"] or "{}").get("status"), r["sequence"])
    for ent, (et, st, seq) in latest.items():
        cur = status.get(ent)
        if cur is None:
            v.append({"kind": "completion-event-for-unknown-entity", "event": et, "sig": f"phantom-event:{et}:unknown"})
            continue
        kind, lab, now = cur
        if now not in COMPLETE and now != "REDIRECT":
            if workload_has_jumps and now in ("NOT_STARTED", "RUNNING"):
                continue  # re-armed by a jump after the event (events of earlier iterations stay in the log)
            v.append({"kind": "completion-event-without-committed-completion", "entity": lab, "event": et,
                      "event_status": st, "row_status": now, "sig": f"phantom-event:{et}:{now}"})
        elif st is not None and st != now and not workload_has_jumps:
            v.append({"kind": "completion-event-status-differs", "entity": lab, "event_status": st, "row_status": now,
                      "sig": f"event-status-differs:{et}"})
    have = set(latest)
    for ent, (kind, lab, now) in status.items():
        if now in NATURAL and ent not in have:
            if workload_has_jumps:
                continue  # force-marked by a jump: outside the log by the property's wording
            v.append({"kind": "committed-completion-without-event", "entity": lab, "entity_kind": kind, "status": now,
                      "sig": f"missing-event:{kind}:{now}"})
    durable = set(seqs)
    ghosts = [b for b in bus_log if b[0] not in durable]
    if ghosts:
        v.append({"kind": "subscriber-notified-of-uncommitted-event", "events": ghosts[:3], "sig": "bus-ghost"})
    bseq = [b[0] for b in bus_log]
    if bseq != sorted(bseq):
        v.append({"kind": "subscriber-saw-events-out-of-order", "sig": "bus-order"})
    for x in v:
        x["where"] = where
    return v, len(rows)


WLS = [wl("chain3"), wl("diamond"), wl("first_of"), wl("quorum"), wl("multitask"), wl("fail_mid"), wl("raise_mid"), wl("continue_on_fail"),
       wl("skip_stage"), wl("poll", 1), wl("transient", 1, True), wl("synthetic"), wl("synthetic_raise"), wl("or_split_join"),
       wl("fail_branch"), wl("jump_cycle", 2, 1)]
FAULT_WLS = [wl("chain3"), wl("multitask"), wl("fail_mid"), wl("continue_on_fail"), wl("diamond"), wl("synthetic"), wl("first_of"),
             wl("quorum")]


def jobs(tier, seed):
    js = []
    for spec in WLS:
        js.append({"label": f"{spec[0]}{spec[1]}|crash-images", "wl": spec, "kind": "crash"})
    for spec in FAULT_WLS:
        js.append({"label": f"{spec[0]}{spec[1]}|statement-faults", "wl": spec, "kind": "fault",
                   "all_steps": tier == "thorough"})
    for spec in [wl("chain3"), wl("diamond"), wl("first_of")]:
        js.append({"label": f"{spec[0]}{spec[1]}|crash-images|reacting subscriber", "wl": spec, "kind": "crash", "reactor": True})
    if tier == "thorough":
        for spec in WLS:
            js.append({"label": f"{spec[0]}{spec[1]}|crash-images|lifo", "wl": spec, "kind": "crash", "schedule": "lifo"})
    return js


def run_crash(job):
    w = world(events=True)
    w.reactor = bool(job.get("reactor"))
    workload = make_workload(job["wl"])
    has_jumps = "jump" in job["wl"][0]
    eng = CrashEngine(w, workload, schedule=job.get("schedule", "fifo"))
    w.bus_log.clear()
    _final, _ledger, snaps = eng.baseline()
    bus = list(w.bus_log)
    viols, events_seen = [], 0
    prev_durable = set()
    for s in snaps:
        # the instant just before this commit: the database is still the previous image, the subscribers
        # have been told bus[:bus_pre]
        early = [b for b in bus[: s.bus_pre] if b[0] not in prev_durable]
        if early:
            viols.append({"kind": "subscriber-notified-before-the-commit", "events": early[:3], "sig": "bus-before-commit",
                          "where": {"crash_before_commit": s.k, "step": s.step, "handling": s.action}})
        w.load(unpack(s.blob))
        vs, n = invariant(w, has_jumps, bus[: s.bus_len], {"crash_after_commit": s.k, "step": s.step, "handling": s.action})
        prev_durable = {r[0] for r in w.conn.execute("SELECT sequence FROM events")}
        events_seen = max(events_seen, n)
        viols.extend(vs)
    return finish(job, viols, len(snaps), len(snaps), events_seen, [f"{s.step}.{s.k}:{s.action}" for s in snaps[:6]])


class Injected(RuntimeError):
    pass


def run_fault(job):
    """Raise an exception at statement i of every completion step, one fault per run."""
    w = world(events=True)
    w.reactor = False
    workload = make_workload(job["wl"])
    eng = CrashEngine(w, workload)
    ex = eng.ex
    st = ex.initial()
    viols, evals, points = [], 0, []
    steps = 0
    final_ref = None
    while st.view.queue and steps < 300:
        acts = ex.enabled(st)
        action = eng.pick(st, acts, steps)
        interesting = job.get("all_steps") or action[0].startswith(("d:CompleteTask", "d:CompleteStage", "d:RunTask"))
        if interesting and action[0].startswith("d:"):
            # count statements of the clean step
            HOOKS.statements = 0
            counter = {"n": 0}

            def count(conn, sql, params):
                if w._engine_active:
                    counter["n"] += 1

            def count_commit(conn):
                if w._engine_active:
                    counter["c"] = counter.get("c", 0) + 1

            HOOKS.pre_execute = count
            HOOKS.pre_commit = count_commit
            try:
                ex.apply(st, action)
            finally:
                HOOKS.pre_execute = None
                HOOKS.pre_commit = None
            n_stmt = counter["n"]
            n_commits = counter.get("c", 0)
            for j in range(n_commits):
                fired = {"n": 0, "done": False}

                def fail_commit(conn, _j=j):
                    if not w._engine_active or fired["done"]:
                        return
                    if fired["n"] == _j:
                        fired["done"] = True
                        raise sqlite3.OperationalError("disk I/O error")
                    fired["n"] += 1

                HOOKS.pre_commit = fail_commit
                w.bus_log.clear()
                try:
                    ex.apply(st, action)
                finally:
                    HOOKS.pre_commit = None
                if w.conn.in_transaction:
                    w.conn.rollback()  # what closing the failed connection does
                evals += 1
                where = {"step": steps, "handling": action[0], "commit": j, "fault": "commit-fails"}
                vs, _n = invariant(w, False, list(w.bus_log), where)
                viols.extend(vs)
                if len(points) < 6:
                    points.append(f"{steps}:{action[0]}@commit{j}:fails")
            for i in range(n_stmt):
                for exc_kind in ("locked", "runtime"):
                    fired = {"n": 0, "done": False}

                    def inject(conn, sql, params, _i=i, _k=exc_kind):
                        if not w._engine_active or fired["done"]:
                            return
                        if fired["n"] == _i:
                            fired["done"] = True
                            if _k == "locked":
                                raise sqlite3.OperationalError("database is locked")
                            raise Injected("injected fault")
                        fired["n"] += 1

                    HOOKS.pre_execute = inject
                    w.bus_log.clear()
                    try:
                        tr, b = ex.apply(st, action)
                    finally:
                        HOOKS.pre_execute = None
                    c = w.conn
                    if c.in_transaction:
                        viols.append({"kind": "transaction-left-open-after-fault", "sig": "dangling-transaction",
                                      "where": {"step": steps, "handling": action[0], "statement": i, "fault": exc_kind}})
                        c.rollback()
                    evals += 1
                    where = {"step": steps, "handling": action[0], "statement": i, "fault": exc_kind}
                    vs, _n = invariant(w, False, list(w.bus_log), where)
                    # the subscriber must only have seen events that are durable NOW
                    viols.extend(vs)
                    if len(points) < 6:
                        points.append(f"{steps}:{action[0]}@stmt{i}:{exc_kind}")
        tr, b = ex.apply(st, action)
        ns, _ = ex.fold(st, tr, b)
        ns.blob = pack(w.image())
        st = ns
        steps += 1
    return finish(job, viols, evals, evals, 0, points)


def finish(job, viols, evals, distinct, events_seen, samples):
    out, seen = [], set()
    for v in viols:
        h = (v.get("where") or {}).get("handling", "")
        sig = f"e2:{v['sig']}@{':'.join(h.split(':')[:2])}"
        v["signature"] = sig
        v["trace"] = [str(v.get("where"))]
        if sig not in seen:
            seen.add(sig)
            out.append(v)
    return {"evaluations": evals, "distinct": distinct, "violations": out, "violation_instances": len(viols),
            "events": events_seen, "samples": [samples], "job_spec": job}


def run_job(job):
    return run_crash(job) if job["kind"] == "crash" else run_fault(job)


def aggregate(results, tier, seed, pre):
    good = [r for r in results if "harness_error" not in r]
    return {
        "level": "fault_enumeration",
        "coverage": {
            "evaluations": sum(r["evaluations"] for r in good),
            "distinct_nontrivial": sum(r["distinct"] for r in good),
            "rule": "crash jobs: one case = database image after commit k of the run (commit hook on the real connection), event store in the same database; "
                    "fault jobs: one case = (step, statement index i, exception kind) with the exception raised by the real connection's execute() "
                    "before statement i of a RunTask/CompleteTask/CompleteStage step (every step in thorough); invariant = events <-> rows <-> synchronous subscriber log",
            "samples": [{"job": r["job"], "points": r["samples"][0]} for r in good[:4]],
            "exhaustive": True,
            "per_job": [{k: r.get(k) for k in ("job", "evaluations", "violation_instances", "events", "wall_s")} for r in good],
            "headline": {"jobs": len(good), "cases": sum(r["evaluations"] for r in good)},
        },
        "assumptions": ["SQLite atomic commit trusted", "event store configured on the same database as the workflow store",
                        "one fault per run; FIFO baseline (+LIFO in thorough)"],
    }


def replay(payload):
    r = run_job(payload["job"])
    want = payload["violation"].get("signature")
    return {"violations": [v for v in r["violations"] if v["signature"] == want]}
