"""C17 - after a cancel is accepted no further task starts and the workflow ends (E1)."""

from __future__ import annotations

from vlib.e1 import Explorer
from vlib.e1jobs import aggregate_e1, make_workload, result_from, wl, world
from vlib.monitors import CancelMonitor

PROPERTY = "C17"

WLS = [wl("diamond"), wl("chain3"), wl("multitask"), wl("synthetic"), wl("poll", 1), wl("transient", 1, True),
       wl("fail_mid"), wl("continue_on_fail"), wl("jump_cycle", 2, 1), wl("suspend_gate"), wl("mutex2")]
BIG = [wl("quorum"), wl("first_of"), wl("fail_branch"), wl("diamond_multitask")]
# mutex2 with cancel-anywhere is ~40k states: thorough only
WLS_QUICK_SKIP = {"mutex2"}


def jobs(tier, seed):
    js = []
    if tier == "quick":
        for spec in WLS:
            if spec[0] in WLS_QUICK_SKIP:
                continue
            js.append({"label": f"{spec[0]}{spec[1]}|cancel-anywhere", "wl": spec, "budget": {"cancel": 1}})
        # the larger workloads are explored in the thorough tier
    else:
        for spec in WLS + BIG:
            js.append({"label": f"{spec[0]}{spec[1]}|cancel,noack1", "wl": spec, "budget": {"cancel": 1, "noack": 1},
                       "max_states": 400000})
            js.append({"label": f"{spec[0]}{spec[1]}|cancel,early1", "wl": spec, "budget": {"cancel": 1, "early": 1}})
    for spec in [wl("chain3"), wl("diamond"), wl("multitask")] + ([wl("synthetic"), wl("fail_mid"), wl("jump_cycle", 2, 1)]
                                                                if tier == "thorough" else []):
        js.append({"label": f"{spec[0]}{spec[1]}|cancel at every step x crash at every commit after it", "wl": spec,
                   "kind": "e2"})
    return js


def run_e2(job):
    """Worker death inside the cancel's own steps: in-order run, cancel requested before step k (every k), every
    commit made from the request onwards is a crash point; restart, recovery sweep, lock expiry, drain - the
    CancelMonitor (armed from the image) sees every execution and the final state."""
    from vlib.e2 import CrashEngine

    w = world()
    workload = make_workload(job["wl"])
    viols, evals, points, k = [], 0, 0, 0
    while k < 60:
        eng = CrashEngine(w, workload, monitors=[CancelMonitor()], budget={"cancel": 1})
        ex = eng.ex
        state = {"n": 0}

        def pick(st, acts, step_no, _k=k, _s=state):
            can = [a for a in acts if a[0] == "cancel"]
            deliver = sorted([a for a in acts if a[0].startswith("d:")], key=lambda a: a[1])
            if can and _s["n"] >= _k:
                _s["cancel_step"] = step_no
                return can[0]
            _s["n"] += 1
            if deliver:
                return deliver[0]
            rest = [a for a in acts if a[0] != "cancel"]
            return rest[0] if rest else acts[0]

        eng.pick = pick
        final, ledger, snaps = eng.drive(ex.initial(), record=True)
        if final.budget["cancel"] != 0:
            break  # the run finished before step k: every moment has been covered
        first = next((i for i, s in enumerate(snaps) if s.step > state["cancel_step"]), len(snaps))
        cpos = next(i for i, t in enumerate(final.trace) if t == "cancel")
        eng.budget_at = lambda sn, _p=cpos: {"cancel": 0} if sn.tlen > _p else None  # the request is in the image already
        points += len(snaps) - first
        eng.mon_violations = []
        for s in snaps[first:]:
            for order in ("restart-first", "expire-first"):
                f2, _post, _ = eng.recover(s, order)
                evals += 1
                mon = CancelMonitor()
                ms = f2.mon.get("cancel") or mon.init(ex)
                if ms["at"] is None and mon.processed(f2.view):
                    ms = {"at": mon.classify(f2.view), "wf": f2.view.wf["status"]}
                for v in mon.final(ex, f2.view, ms, f2):
                    v["trace"] = list(f2.trace)
                    eng.mon_violations.append(v)
                for v in eng.mon_violations:
                    v.setdefault("where", {"cancel_before_step": k, "crash_after_commit": s.k, "handling": s.action,
                                           "order": order})
        viols.extend(eng.mon_violations)
        k += 1
    out, seen = [], set()
    for v in viols:
        h = (v.get("where") or {}).get("handling", "")
        v["signature"] = f"e2:{v['sig']}@{':'.join(h.split(':')[:2])}"
        if v["signature"] not in seen:
            seen.add(v["signature"])
            out.append(v)
    return {"states": points, "transitions": evals, "violations": out, "samples": [], "job_spec": job,
            "crash_points": points, "cancel_moments": k}


def build(job):
    w = world()
    workload = make_workload(job["wl"])
    return Explorer(w, workload, [CancelMonitor()], job.get("budget"),
                    max_states=job.get("max_states", 200000), time_cap=job.get("time_cap", 600))


def run_job(job):
    if job.get("kind") == "e2":
        return run_e2(job)
    ex = build(job).run()
    res = result_from(ex, "e1")
    res["job_spec"] = job
    return res


def aggregate(results, tier, seed, pre):
    return aggregate_e1(results, tier, seed, pre)


def replay(payload):
    if payload["job"].get("kind") == "e2":
        r = run_e2(payload["job"])
        return {"violations": [v for v in r["violations"] if v["signature"] == payload["violation"].get("signature")]}
    ex = build(payload["job"])
    out, viols, st = ex.replay(payload["violation"]["trace"])
    return {"steps": out, "violations": viols, "final_outcome": st.view.outcome()}
