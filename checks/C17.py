"""C17 - after a cancel is accepted no further task starts and the workflow ends (E1)."""

from __future__ import annotations

from vlib.e1 import Explorer
from vlib.e1jobs import aggregate_e1, make_workload, result_from, wl, world
from vlib.monitors import CancelMonitor

PROPERTY = "C17"

WLS = [wl("diamond"), wl("chain3"), wl("multitask"), wl("synthetic"), wl("poll", 1), wl("transient", 1, True),
       wl("fail_mid"), wl("continue_on_fail"), wl("jump_cycle", 2, 1), wl("suspend_gate"), wl("mutex2")]
BIG = [wl("quorum"), wl("first_of"), wl("fail_branch"), wl("diamond_multitask")]
# mutex2 with cancel-anywhere is ~40k states: thorough only
WLS_QUICK_SKIP = {"mutex2"}


def jobs(tier, seed):
    js = []
    if tier == "quick":
        for spec in WLS:
            if spec[0] in WLS_QUICK_SKIP:
                continue
            js.append({"label": f"{spec[0]}{spec[1]}|cancel-anywhere", "wl": spec, "budget": {"cancel": 1}})
        # the larger workloads are explored in the thorough tier
    else:
        for spec in WLS + BIG:
            js.append({"label": f"{spec[0]}{spec[1]}|cancel,noack1", "wl": spec, "budget": {"cancel": 1, "noack": 1},
                       "max_states": 400000})
            js.append({"label": f"{spec[0]}{spec[1]}|cancel,early1", "wl": spec, "budget": {"cancel": 1, "early": 1}})
    return js


def build(job):
    w = world()
    workload = make_workload(job["wl"])
    return Explorer(w, workload, [CancelMonitor()], job.get("budget"),
                    max_states=job.get("max_states", 200000), time_cap=job.get("time_cap", 1500))


def run_job(job):
    ex = build(job).run()
    res = result_from(ex, "e1")
    res["job_spec"] = job
    return res


def aggregate(results, tier, seed, pre):
    return aggregate_e1(results, tier, seed, pre)


def replay(payload):
    ex = build(payload["job"])
    out, viols, st = ex.replay(payload["violation"]["trace"])
    return {"steps": out, "violations": viols, "final_outcome": st.view.outcome()}
