"""Workload family (DESIGN.md section 4)."""

from __future__ import annotations

import itertools
from dataclasses import dataclass, field

from stabilize import StageExecution, TaskExecution, Workflow
from stabilize.models.stage import JoinType, SplitType


@dataclass
class St:
    ref: str
    deps: tuple = ()
    tasks: list = None  # [(task name, script)]
    ctx: dict = field(default_factory=dict)
    join: str = "AND"
    threshold: int = 0
    split: str = "AND"
    split_conditions: dict = field(default_factory=dict)
    mutex: str | None = None
    choice: str | None = None
    type: str = "v"
    reducers: dict = field(default_factory=dict)
    parent: tuple | None = None  # (parent ref, "STAGE_BEFORE" | "STAGE_AFTER"): a synthetic child declared in the definition
    region: str | None = None  # cancel_region (WCP-25)
    milestone: tuple | None = None  # (milestone_ref_id, milestone_status) (WCP-18)


@dataclass
class Workload:
    name: str
    stages: list
    wf_ctx: dict = field(default_factory=dict)
    klass: str = "confluent"  # confluent | racy
    notes: str = ""

    def build(self, world):
        world.behaviours = {}
        world.task_names = set()
        stages = []
        for s in self.stages:
            tasks = s.tasks
            if tasks is None:
                tasks = [("t", {"kind": "ok", "out": std_out(s.ref)})]
            texecs = []
            for i, (tname, script) in enumerate(tasks):
                world.behaviours[(s.ref, tname)] = script
                world.task_names.add(tname)
                texecs.append(
                    TaskExecution.create(
                        name=tname,
                        implementing_class=f"v_{tname}",
                        stage_start=(i == 0),
                        stage_end=(i == len(tasks) - 1),
                    )
                )
            stages.append(
                StageExecution(
                    ref_id=s.ref,
                    type=s.type,
                    name=s.ref,
                    context=dict(s.ctx),
                    requisite_stage_ref_ids=set(s.deps),
                    tasks=texecs,
                    join_type=JoinType[s.join],
                    join_threshold=s.threshold,
                    split_type=SplitType[s.split],
                    split_conditions=dict(s.split_conditions),
                    mutex_key=s.mutex,
                    deferred_choice_group=s.choice,
                    output_reducers=dict(s.reducers),
                    cancel_region=s.region,
                    milestone_ref_id=s.milestone[0] if s.milestone else None,
                    milestone_status=s.milestone[1] if s.milestone else None,
                )
            )
        from stabilize.models.stage import SyntheticStageOwner

        byref = {x.ref_id: x for x in stages}
        for sp in self.stages:
            if sp.parent:
                child = byref[sp.ref]
                child.parent_stage_id = byref[sp.parent[0]].id
                child.synthetic_stage_owner = SyntheticStageOwner[sp.parent[1]]
        wf = Workflow.create(application="verif", name=self.name, stages=stages, context=dict(self.wf_ctx))
        if any(s.type.startswith("vsyn") for s in self.stages):
            register_builders(world)
            if self.notes == "failpost":
                world.behaviours[("post", "t")] = {"kind": "terminal"}
            if self.notes == "failpre1":
                world.behaviours[("pre1", "t")] = {"kind": "terminal"}
        return wf

    def plainly_succeeds(self):
        """True for workloads whose intended outcome is beyond doubt: every task simply succeeds (possibly after
        reporting RUNNING a few times), default joins, no conditions, no jumps - the workflow must end SUCCEEDED."""
        for s in self.stages:
            if s.join != "AND" or s.split != "AND" or s.mutex or s.choice or s.type not in ("v", "vsyn", "vsyn2", "vsyn_gate"):
                return False
            if any(k in s.ctx for k in ("stageEnabled", "skipIf", "startTimeExpiry")) or self.notes:
                return False
            for _n, script in (s.tasks or []):
                if script.get("kind", "ok") not in ("ok", "poll"):
                    return False
        return True

    def decoy_workflow(self):
        """Same ref_ids, other shape: 'nodeps' = every stage a root, 'chain' = one total order (reversed)."""
        from stabilize import StageExecution, TaskExecution, Workflow

        refs = [s.ref for s in self.stages]
        if self.decoy == "chain":
            refs = list(reversed(refs))
        stages = []
        for i, r in enumerate(refs):
            deps = {refs[i - 1]} if (self.decoy == "chain" and i) else set()
            stages.append(StageExecution(ref_id=r, name=r, type="v", requisite_stage_ref_ids=deps,
                                         tasks=[TaskExecution.create(name="t", implementing_class="v_t", stage_start=True,
                                                                     stage_end=True)]))
        return Workflow.create(application="verif-decoy", name="decoy", stages=stages)

    # static graph helpers used by oracles ---------------------------------
    def spec(self, ref):
        for s in self.stages:
            if s.ref == ref:
                return s
        return None

    def ancestors(self, ref):
        seen, todo = set(), list(self.spec(ref).deps)
        while todo:
            r = todo.pop()
            if r not in seen:
                seen.add(r)
                todo.extend(self.spec(r).deps)
        return seen

    def descendants(self, ref):
        return {s.ref for s in self.stages if ref in self.ancestors(s.ref)}


def std_out(ref):
    return {"k": ("name",), "l": ("list", ref), f"o_{ref}": ("name",)}


def ok(ref, **kw):
    return St(ref, **kw)


# ---------------------------------------------------------------------------
def chain3():
    return Workload("chain3", [St("A"), St("B", ("A",)), St("C", ("B",))])


def diamond():
    return Workload("diamond", [St("A"), St("B", ("A",)), St("C", ("A",)), St("D", ("B", "C"))])


def fan3():
    return Workload(
        "fan3", [St("A"), St("B", ("A",)), St("C", ("A",)), St("D", ("A",)), St("E", ("B", "C", "D"))]
    )


def multitask():
    t = [("t1", {"kind": "ok", "out": {"x1": ("const", 1)}}), ("t2", {"kind": "ok", "out": {"x2": ("const", 2)}}),
         ("t3", {"kind": "ok", "out": {"x3": ("const", 3)}})]
    return Workload("multitask", [St("A", tasks=t), St("B", ("A",))])


def diamond_multitask():
    t = [("t1", {"kind": "ok", "out": {"x1": ("const", 1)}}), ("t2", {"kind": "ok", "out": {"x2": ("const", 2)}})]
    return Workload("diamond_mt", [St("A"), St("B", ("A",), tasks=t), St("C", ("A",)), St("D", ("B", "C"), tasks=list(t))])


def fail_mid():
    return Workload("fail_mid", [St("A"), St("B", ("A",), tasks=[("t", {"kind": "terminal"})]), St("C", ("B",))])


def raise_mid():
    return Workload("raise_mid", [St("A"), St("B", ("A",), tasks=[("t", {"kind": "raise"})]), St("C", ("B",))])


def fail_branch():
    return Workload(
        "fail_branch",
        [St("A"), St("B", ("A",), tasks=[("t", {"kind": "terminal"})]), St("C", ("A",)), St("D", ("B", "C"))],
        klass="racy",
    )


def continue_on_fail():
    return Workload(
        "continue_on_fail",
        [St("A"), St("B", ("A",), tasks=[("t", {"kind": "terminal"})], ctx={"continuePipelineOnFailure": True}),
         St("C", ("B",))],
    )


def poll(k=2):
    return Workload(f"poll{k}", [St("A", tasks=[("t", {"kind": "poll", "k": k, "out": std_out("A")})]), St("B", ("A",))])


def with_decoy(kind, name, *args):
    """The named workload, run in a store that also holds an older bystander workflow with the same ref_ids."""
    w = globals()[name](*args)
    w.decoy = kind
    w.name = f"{w.name}+decoy-{kind}"
    return w


def region_diamond():
    """A -> (B, C in cancel region 'r') -> D ; E independent of the region."""
    return Workload("region_diamond", [St("A"), St("B", ("A",), region="r"),
                                       St("C", ("A",), region="r", tasks=[("t1", {"kind": "ok"}), ("t2", {"kind": "ok"})]),
                                       St("D", ("B", "C")), St("E", ("A",))], klass="racy")


def milestone2():
    """X is enabled only while A is RUNNING (milestone): depending on the order X runs or is skipped; Z joins both."""
    return Workload("milestone2", [St("A"), St("X", milestone=("A", "RUNNING")), St("Z", ("A", "X"))], klass="racy")


def slow_branch(k=5):
    """A -> B (a task that reports RUNNING k times before it finishes) ; A -> C (quick leaf): C's completion makes
    CompleteWorkflow poll while B is still in flight, k re-queues in a row."""
    return Workload(f"slow_branch{k}", [St("A"), St("B", ("A",), tasks=[("t", {"kind": "poll", "k": k, "out": std_out("B")})]),
                                        St("C", ("A",))])


def transient(k=1, ctx=True, pos=0, ntasks=1, sibling=False):
    tasks = []
    for i in range(ntasks):
        if i == pos:
            tasks.append((f"t{i}", {"kind": "transient", "k": k, "ctx": ctx, "out": {f"x{i}": ("const", i)}}))
        else:
            tasks.append((f"t{i}", {"kind": "ok", "out": {f"x{i}": ("const", i)}}))
    st = [St("A", tasks=tasks), St("B", ("A",))]
    if sibling:
        st.append(St("S"))
    return Workload(f"transient_k{k}_{'ctx' if ctx else 'noctx'}_p{pos}of{ntasks}{'_sib' if sibling else ''}", st)


def skip_stage():
    return Workload("skip", [St("A"), St("B", ("A",), ctx={"stageEnabled": False}), St("C", ("B",))])


def _loop_out(ref, target):
    if ref == target:
        return {"it": ("iter",), f"o_{ref}": ("name",), "l": ("list", ref)}
    return {f"w_{ref}": ("wrap", "it"), f"o_{ref}": ("name",), "l": ("list", ref)}


def jump_self(times=2, max_jumps=None, level="wf"):
    ctx, wctx = {}, {}
    if max_jumps is not None:
        (wctx if level == "wf" else ctx)["_max_jumps"] = max_jumps
    return Workload(
        f"jump_self_t{times}_m{max_jumps}_{level}",
        [St("A", tasks=[("t", {"kind": "jump", "target": "A", "times": times, "out": _loop_out("A", "A")})], ctx=ctx),
         St("B", ("A",), tasks=[("t", {"kind": "ok", "out": _loop_out("B", "A")})])],
        wf_ctx=wctx,
    )


def jump_cycle(n=2, times=2, max_jumps=None, level="wf"):
    """A -> ... -> last ; last jumps back to A `times` times."""
    refs = [chr(ord("A") + i) for i in range(n)]
    wctx = {}
    st = []
    for i, r in enumerate(refs):
        deps = (refs[i - 1],) if i else ()
        ctx = {}
        if i == n - 1:
            if max_jumps is not None:
                (wctx if level == "wf" else ctx)["_max_jumps"] = max_jumps
            tasks = [("t", {"kind": "jump", "target": "A", "times": times, "out": _loop_out(r, "A")})]
        else:
            tasks = [("t", {"kind": "ok", "out": _loop_out(r, "A")})]
        st.append(St(r, deps, tasks=tasks, ctx=ctx))
    st.append(St("Z", (refs[-1],), tasks=[("t", {"kind": "ok", "out": _loop_out("Z", "A")})]))
    return Workload(f"jump_cycle{n}_t{times}_m{max_jumps}_{level}", st, wf_ctx=wctx)


def jump_partial_outputs(times=1):
    """A -> B -> C(jumps to A, publishing `partial` and `why` only in the iterations it abandons) -> Z ;
    B's second task of two publishes after the first, so a re-run must also start from clean outputs."""
    mk = lambda r: [("t", {"kind": "ok", "out": _loop_out(r, "A")})]  # noqa: E731
    return Workload(
        f"jump_partial_t{times}",
        [St("A", tasks=mk("A")), St("B", ("A",), tasks=mk("B")),
         St("C", ("B",), tasks=[("t", {"kind": "jump", "target": "A", "times": times, "out": _loop_out("C", "A"),
                                       "jump_out": {"partial": ("wrap", "it"), "why": ("const", "retry")}})]),
         St("Z", ("C",), tasks=mk("Z"))],
    )


def jump_self_partial(times=1):
    return Workload(
        f"jump_self_partial_t{times}",
        [St("A", tasks=[("t", {"kind": "jump", "target": "A", "times": times, "out": _loop_out("A", "A"),
                               "jump_out": {"partial": ("iter",)}})]),
         St("Z", ("A",), tasks=[("t", {"kind": "ok", "out": _loop_out("Z", "A")})])],
    )


def jump_two_targets():
    """A -> B -> C -> Z ; C jumps first to B, then (next time round) to A."""
    mk = lambda r: [("t", {"kind": "ok", "out": _loop_out(r, "A")})]  # noqa: E731
    return Workload(
        "jump_two_targets",
        [St("A", tasks=mk("A")), St("B", ("A",), tasks=mk("B")),
         St("C", ("B",), tasks=[("t", {"kind": "jump", "target": ["B", "A"], "times": 2, "out": _loop_out("C", "A")})]),
         St("Z", ("C",), tasks=mk("Z"))],
    )


def jump_sibling_fanin(times=1):
    """A -> B (side branch that depends on the jump target) ; A -> C (jumps back to A) ; D joins (B, C)."""
    mk = lambda r: [("t", {"kind": "ok", "out": _loop_out(r, "A")})]  # noqa: E731
    return Workload(
        f"jump_sibling_fanin_t{times}",
        [St("A", tasks=mk("A")), St("B", ("A",), tasks=mk("B")),
         St("C", ("A",), tasks=[("t", {"kind": "jump", "target": "A", "times": times, "out": _loop_out("C", "A")})]),
         St("D", ("B", "C"), tasks=mk("D"))],
    )


def jump_side_fanin(times=1, max_jumps=None):
    """P -> A -> B -> C(jumps to A); side branch P -> S ; J joins (C, S)."""
    wctx = {} if max_jumps is None else {"_max_jumps": max_jumps}
    mk = lambda r: [("t", {"kind": "ok", "out": _loop_out(r, "A")})]  # noqa: E731
    return Workload(
        f"jump_side_fanin_t{times}_m{max_jumps}",
        [St("P", tasks=mk("P")), St("A", ("P",), tasks=mk("A")), St("B", ("A",), tasks=mk("B")),
         St("C", ("B",), tasks=[("t", {"kind": "jump", "target": "A", "times": times, "out": _loop_out("C", "A")})]),
         St("S", ("P",), tasks=mk("S")), St("J", ("C", "S"), tasks=mk("J"))],
        wf_ctx=wctx,
    )


def loop_body_shapes(n):
    """DAG shapes on n nodes (up to isomorphism) with exactly one root and one sink: the bodies of a loop."""
    out = []
    for shape in dag_shapes(n):
        roots = [r for r, deps in shape if not deps]
        used = {d for _r, deps in shape for d in deps}
        sinks = [r for r, _d in shape if r not in used]
        if len(roots) == 1 and len(sinks) == 1 and roots[0] != sinks[0]:
            out.append((shape, roots[0], sinks[0]))
    return out


def jump_dag_loop(n, idx, times=1, max_jumps=None, order="fwd"):
    """Loop whose body is the idx-th single-root/single-sink DAG on n nodes: the sink jumps back to the
    root `times` times, then Z runs.  order: declaration order of the stages (fwd = topological, rev =
    reversed, so that of two arms of unequal length either may be declared first)."""
    shape, root, sink = loop_body_shapes(n)[idx]
    wctx = {} if max_jumps is None else {"_max_jumps": max_jumps}
    st = []
    for r, deps in shape:
        if r == sink:
            tasks = [("t", {"kind": "jump", "target": root, "times": times, "out": _loop_out(r, root)})]
        else:
            tasks = [("t", {"kind": "ok", "out": _loop_out(r, root)})]
        st.append(St(r, tuple(deps), tasks=tasks))
    if order == "rev":
        st.reverse()
    st.append(St("Z", (sink,), tasks=[("t", {"kind": "ok", "out": _loop_out("Z", root)})]))
    w = Workload(f"jump_dag_loop{n}_{idx}_t{times}_m{max_jumps}_{order}", st, wf_ctx=wctx)
    w.loop_root, w.loop_sink = root, sink
    return w


def jump_forward_diamond(times=1):
    """A jumps forward to E over the diamond B,{C,D}->E' ... : A -> B -> (C, D) -> E -> F."""
    mk = lambda r: [("t", {"kind": "ok", "out": std_out(r)})]  # noqa: E731
    return Workload(
        f"jump_forward_t{times}",
        [St("A", tasks=[("t", {"kind": "jump", "target": "E", "times": times, "out": std_out("A")})]),
         St("B", ("A",), tasks=mk("B")), St("C", ("B",), tasks=mk("C")), St("D", ("B",), tasks=mk("D")),
         St("E", ("C", "D"), tasks=mk("E")), St("F", ("E",), tasks=mk("F"))],
    )


def jump_diamond_loop(times=1, max_jumps=None):
    """A -> (B1, B2) -> C ; C (a join inside the loop) jumps back to A ; then Z."""
    wctx = {} if max_jumps is None else {"_max_jumps": max_jumps}
    mk = lambda r: [("t", {"kind": "ok", "out": _loop_out(r, "A")})]  # noqa: E731
    return Workload(
        f"jump_diamond_loop_t{times}_m{max_jumps}",
        [St("A", tasks=mk("A")), St("B1", ("A",), tasks=mk("B1")), St("B2", ("A",), tasks=mk("B2")),
         St("C", ("B1", "B2"), tasks=[("t", {"kind": "jump", "target": "A", "times": times, "out": _loop_out("C", "A")})]),
         St("Z", ("C",), tasks=mk("Z"))],
        wf_ctx=wctx,
    )


def join_fail(join="DISCRIMINATOR", threshold=0, stop=True):
    """A -> (B fails, C ok) -> D(join) -> E.  stop=True: B has failPipeline=False (ends STOPPED, others continue)."""
    bctx = {"failPipeline": False} if stop else {}
    return Workload(
        f"join_fail_{join.lower()}_{'stop' if stop else 'term'}",
        [St("A"), St("B", ("A",), tasks=[("t", {"kind": "terminal"})], ctx=bctx), St("C", ("A",)),
         St("D", ("B", "C"), join=join, threshold=threshold), St("E", ("D",))],
        klass="racy",
    )


def jump_forward_multitask(times=1):
    """A (two tasks: t1 jumps forward to C, t2 never runs) -> B -> C."""
    mk = lambda r: [("t", {"kind": "ok", "out": std_out(r)})]  # noqa: E731
    return Workload(
        f"jump_forward_mt_t{times}",
        [St("A", tasks=[("t1", {"kind": "jump", "target": "C", "times": times, "out": std_out("A")}),
                        ("t2", {"kind": "ok", "out": {"x2": ("const", 2)}})]),
         St("B", ("A",), tasks=mk("B")), St("C", ("B",), tasks=mk("C"))],
    )


def multitask_fail(pos=0):
    """One stage with three tasks of which task `pos` fails terminally; then B."""
    t = [(f"t{i}", {"kind": "terminal"} if i == pos else {"kind": "ok", "out": {f"x{i}": ("const", i)}}) for i in range(3)]
    return Workload(f"multitask_fail{pos}", [St("A", tasks=t), St("B", ("A",))])


def first_of():
    return Workload(
        "first_of", [St("A"), St("B", ("A",)), St("C", ("A",)), St("D", ("B", "C"), join="DISCRIMINATOR"), St("E", ("D",))],
        klass="racy",
    )


def quorum():
    return Workload(
        "quorum2of3",
        [St("A"), St("B", ("A",)), St("C", ("A",)), St("D", ("A",)), St("E", ("B", "C", "D"), join="N_OF_M", threshold=2)],
        klass="racy",
    )


def or_split_join():
    return Workload(
        "or_split_join",
        [St("A", split="OR", split_conditions={"B": "go_b == True", "C": "go_c == True"},
            tasks=[("t", {"kind": "ok", "out": {"go_b": ("const", True), "go_c": ("const", False), "o_A": ("name",)}})]),
         St("B", ("A",)), St("C", ("A",)), St("D", ("B", "C"), join="OR")],
    )


def multi_merge():
    return Workload(
        "multi_merge", [St("A"), St("B", ("A",)), St("C", ("A",)), St("D", ("B", "C"), join="MULTI_MERGE")], klass="racy"
    )


def mutex2():
    return Workload("mutex2", [St("A"), St("X", ("A",), mutex="m"), St("Y", ("A",), mutex="m"), St("Z", ("X", "Y"))], klass="racy")


def choice2():
    return Workload("choice2", [St("A"), St("X", ("A",), choice="g"), St("Y", ("A",), choice="g")], klass="racy")


def choice3():
    return Workload(
        "choice3", [St("A"), St("X", ("A",), choice="g"), St("Y", ("A",), choice="g"), St("Z", ("A",), choice="g")], klass="racy"
    )


def suspend_gate():
    return Workload("gate", [St("A"), St("G", ("A",), tasks=[("t", {"kind": "suspend"})]), St("Z", ("G",))])


def suspend_gate_multi():
    """The gate stage has a second task behind the suspending one."""
    return Workload("gate_multi", [St("A"), St("G", ("A",), tasks=[("t", {"kind": "suspend"}), ("t2", {"kind": "ok"})]),
                                   St("Z", ("G",))])


def jump_forward_gate():
    """A jumps forward over B straight to the gate G (re-arming G, which has not run yet) ; G -> Z."""
    return Workload("jump_forward_gate", [
        St("A", tasks=[("t", {"kind": "jump", "target": "G", "times": 1})]), St("B", ("A",)),
        St("G", ("B",), tasks=[("t", {"kind": "suspend"})]), St("Z", ("G",))])


def suspend_gate_n(need=2):
    """The gate's task needs `need` signals and suspends once per signal."""
    return Workload(f"gate{need}", [St("A"), St("G", ("A",), tasks=[("t", {"kind": "suspend_n", "need": need})]),
                                    St("Z", ("G",))])


def synthetic(fail_post=False):
    """A -> S(type vsyn: before-stage 'pre', own task, after-stage 'post') -> Z."""
    return Workload(
        "synthetic" + ("_failpost" if fail_post else ""),
        [St("A"), St("S", ("A",), type="vsyn"), St("Z", ("S",))],
        notes="failpost" if fail_post else "",
    )


def synthetic_raise():
    """A -> S(type vsyn_raise: its builder raises while S is being planned) -> Z."""
    return Workload("synthetic_raise", [St("A"), St("S", ("A",), type="vsyn_raise"), St("Z", ("S",))], klass="racy")


def synthetic_gate():
    """A -> S(type vsyn_gate: no own task, one builder-planned before-stage 'pre') -> Z."""
    return Workload("synthetic_gate", [St("A"), St("S", ("A",), type="vsyn_gate", tasks=[]), St("Z", ("S",))])


def synthetic_multitask():
    """A -> S(type vsyn: before-stage 'pre', TWO own tasks, after-stage 'post') -> Z."""
    t = [("t1", {"kind": "ok", "out": {"x1": ("const", 1)}}), ("t2", {"kind": "ok", "out": {"x2": ("const", 2)}})]
    return Workload("synthetic_multitask", [St("A"), St("S", ("A",), type="vsyn", tasks=t), St("Z", ("S",))])


def synthetic2_failpre():
    """S (continue-on-failure) has two PARALLEL before-stages; pre1 fails, pre2 finishes later."""
    return Workload("synthetic2_failpre", [St("A"), St("S", ("A",), type="vsyn2", ctx={"continuePipelineOnFailure": True}),
                                           St("Z", ("S",))], notes="failpre1", klass="racy")


def synthetic2_multitask():
    """S has two PARALLEL before-stages and TWO own tasks (two ContinueParentStage messages meet two tasks)."""
    t = [("t1", {"kind": "ok", "out": {"x1": ("const", 1)}}), ("t2", {"kind": "ok", "out": {"x2": ("const", 2)}})]
    return Workload("synthetic2_multitask", [St("A"), St("S", ("A",), type="vsyn2", tasks=t), St("Z", ("S",))])


def declared_after_fc():
    """S's task ends FAILED_CONTINUE and S has an after-stage DECLARED in the workflow definition ; then Z."""
    return Workload("declared_after_fc", [
        St("A"), St("S", ("A",), ctx={"continuePipelineOnFailure": True}, tasks=[("t", {"kind": "failed_continue"})]),
        St("post", parent=("S", "STAGE_AFTER")), St("Z", ("S",))], klass="racy")


def declared_after_ok():
    """like declared_after_fc, the task simply succeeds"""
    return Workload("declared_after_ok", [St("A"), St("S", ("A",)), St("post", parent=("S", "STAGE_AFTER")), St("Z", ("S",))])


def or_split_long():
    """OR-split A -> B -> J ; A -> C -> C2 -> J (a two-stage activated branch) ; A -> D (deselected) -> J ; J is an OR join."""
    return Workload(
        "or_split_long",
        [St("A", split="OR", split_conditions={"B": "go == True", "C": "go == True", "D": "go == False"},
            tasks=[("t", {"kind": "ok", "out": {"go": ("const", True), "o_A": ("name",)}})]),
         St("B", ("A",)), St("C", ("A",)), St("C2", ("C",)), St("D", ("A",)), St("J", ("B", "C2", "D"), join="OR")],
    )


def or_split_err():
    """OR-split whose condition for C cannot be evaluated (compares a missing key): C is skipped, B runs, D joins."""
    return Workload(
        "or_split_err",
        [St("A", split="OR", split_conditions={"B": "go == True", "C": "missing_score < 3"},
            tasks=[("t", {"kind": "ok", "out": {"go": ("const", True), "o_A": ("name",)}})]),
         St("B", ("A",)), St("C", ("A",)), St("D", ("B", "C"), join="OR")],
    )


def jump_back_multitask(times=1):
    """A -> B (two tasks: t1 jumps back to A `times` times, t2 runs after the loop) -> C."""
    mk = lambda r: [("t", {"kind": "ok", "out": _loop_out(r, "A")})]  # noqa: E731
    return Workload(
        f"jump_back_mt_t{times}",
        [St("A", tasks=mk("A")),
         St("B", ("A",), tasks=[("t1", {"kind": "jump", "target": "A", "times": times, "out": _loop_out("B", "A")}),
                                ("t2", {"kind": "ok", "out": {"x2": ("const", 2)}})]),
         St("C", ("B",), tasks=mk("C"))],
    )


def synthetic2():
    """A -> S(type vsyn2: two PARALLEL before-stages pre1, pre2, own task) -> Z."""
    return Workload("synthetic2", [St("A"), St("S", ("A",), type="vsyn2"), St("Z", ("S",))])


def register_builders(world):
    from stabilize.models.stage import StageExecution as SE, SyntheticStageOwner
    from stabilize.models.task import TaskExecution as TE
    from stabilize.stages.builder import StageDefinitionBuilder, get_default_factory

    class VSynBuilder(StageDefinitionBuilder):
        @property
        def type(self):
            return "vsyn"

        def _mk(self, stage, name, owner):
            s = SE.create_synthetic(type="v", name=name, parent=stage, owner=owner)
            s.tasks = [TE.create(name="t", implementing_class="v_t", stage_start=True, stage_end=True)]
            return s

        def before_stages(self, stage, graph):
            graph.add(self._mk(stage, "pre", SyntheticStageOwner.STAGE_BEFORE))

        def after_stages(self, stage, graph):
            graph.add(self._mk(stage, "post", SyntheticStageOwner.STAGE_AFTER))

    class VSyn2Builder(VSynBuilder):
        @property
        def type(self):
            return "vsyn2"

        def before_stages(self, stage, graph):
            graph.add(self._mk(stage, "pre1", SyntheticStageOwner.STAGE_BEFORE))
            graph.add(self._mk(stage, "pre2", SyntheticStageOwner.STAGE_BEFORE))

        def after_stages(self, stage, graph):
            pass

    class VSynRaiseBuilder(VSynBuilder):
        """planning fails: the builder itself raises while the stage is being started"""

        @property
        def type(self):
            return "vsyn_raise"

        def before_stages(self, stage, graph):
            raise ValueError("scripted planning failure")

        def after_stages(self, stage, graph):
            pass

    class VSynGateBuilder(VSynBuilder):
        """a stage with no task of its own: all its work is the before-stage its builder plans"""

        @property
        def type(self):
            return "vsyn_gate"

        def build_tasks(self, stage):
            return []

        def after_stages(self, stage, graph):
            pass

    get_default_factory().register(VSynBuilder())
    get_default_factory().register(VSyn2Builder())
    get_default_factory().register(VSynRaiseBuilder())
    get_default_factory().register(VSynGateBuilder())
    for n in ("pre1", "pre2"):
        world.behaviours.setdefault((n, "t"), {"kind": "ok", "out": {f"o_{n}": ("name",)}})
    world.behaviours.setdefault(("pre", "t"), {"kind": "ok", "out": {"o_pre": ("name",)}})
    world.behaviours.setdefault(("post", "t"), {"kind": "ok", "out": {"o_post": ("name",)}})


# ---------------------------------------------------------------------------
def dag_shapes(n):
    """Every DAG on n labelled-in-topological-order nodes, up to isomorphism
    (canonical form = min over permutations that keep edges forward)."""
    refs = [chr(ord("A") + i) for i in range(n)]
    pairs = [(i, j) for i in range(n) for j in range(i + 1, n)]
    seen = set()
    out = []
    for mask in range(1 << len(pairs)):
        edges = frozenset(p for b, p in enumerate(pairs) if mask >> b & 1)
        canon = None
        for perm in itertools.permutations(range(n)):
            e2 = frozenset((perm[i], perm[j]) for i, j in edges)
            if all(a < b for a, b in e2):
                t = tuple(sorted(e2))
                if canon is None or t < canon:
                    canon = t
        if canon in seen:
            continue
        seen.add(canon)
        out.append([(refs[j], tuple(refs[i] for i, jj in canon if jj == j)) for j in range(n)])
    return out


def dag_seeded(n, seed, idx):
    """A seed-selected larger DAG (5..7 stages) with mixed join types; VERIF_SEED chooses WHICH
    instances are explored - each selected instance is itself explored exhaustively."""
    import random

    rnd = random.Random(seed * 1000 + idx * 17 + n)
    refs = [chr(ord("A") + i) for i in range(n)]
    st = []
    for j, r in enumerate(refs):
        k = 0 if j == 0 else rnd.choice([1, 1, 2, 2, 3])
        deps = tuple(sorted(rnd.sample(refs[:j], min(k, j))))
        join, thr = "AND", 0
        if len(deps) >= 2:
            join = rnd.choice(["AND", "AND", "DISCRIMINATOR", "N_OF_M", "MULTI_MERGE"])
            thr = rnd.randint(1, len(deps)) if join == "N_OF_M" else 0
        tasks = None
        if j and rnd.random() < 0.2:
            tasks = [("t", {"kind": "terminal"})]
        st.append(St(r, deps, tasks=tasks, join=join, threshold=thr))
    return Workload(f"dag{n}_seed{seed}_{idx}", st, klass="racy")


def dag_workloads(max_n=4, halts=True):
    res = []
    for n in range(1, max_n + 1):
        for idx, shape in enumerate(dag_shapes(n)):
            res.append(Workload(f"dag{n}_{idx}", [St(r, deps) for r, deps in shape]))
            if halts:
                for hr, _ in shape:
                    st = [St(r, deps, tasks=[("t", {"kind": "terminal"})] if r == hr else None) for r, deps in shape]
                    res.append(Workload(f"dag{n}_{idx}_halt{hr}", st, klass="racy"))
    return res


REGISTRY = {
    "chain3": chain3, "diamond": diamond, "fan3": fan3, "multitask": multitask, "diamond_mt": diamond_multitask,
    "fail_mid": fail_mid, "raise_mid": raise_mid, "fail_branch": fail_branch, "continue_on_fail": continue_on_fail,
    "skip": skip_stage, "first_of": first_of, "quorum": quorum, "or_split_join": or_split_join,
    "multi_merge": multi_merge, "mutex2": mutex2, "choice2": choice2, "choice3": choice3, "gate": suspend_gate,
}
