"""Which context keys may be asserted (DESIGN.md C16): only path-ordered keys."""

from __future__ import annotations


def producers(workload):
    prod = {}
    for s in workload.stages:
        tasks = s.tasks if s.tasks is not None else [("t", {"kind": "ok", "out": __import__("vlib.workloads", fromlist=["std_out"]).std_out(s.ref)})]
        for _tn, script in tasks:
            for k in list(script.get("out") or {}) + list(script.get("jump_out") or {}):
                prod.setdefault(k, set()).add(s.ref)
    return prod


def totally_ordered(workload, refs):
    refs = list(refs)
    for i, a in enumerate(refs):
        for b in refs[i + 1:]:
            if a not in workload.ancestors(b) and b not in workload.ancestors(a):
                return False
    return True


def projection(workload, stage_name, ctx, _cache={}):
    """The part of a seen context that is schedule-independent by design."""
    spec = workload.spec(stage_name)
    key = (id(workload), stage_name)
    if key not in _cache:
        prod = producers(workload)
        if spec is None:
            _cache[key] = None
        else:
            anc = workload.ancestors(stage_name)
            drop = set()
            for k, ps in prod.items():
                rel = ps & anc
                if len(rel) > 1 and not totally_ordered(workload, rel):
                    drop.add(k)
            _cache[key] = drop
    drop = _cache[key]
    out = {}
    for k, v in ctx.items():
        if k.startswith("_") and k not in ("_signal_name", "_signal_data", "_pc", "_tc", "_jump_count"):
            continue
        if drop and k in drop and not isinstance(v, list):
            continue
        out[k] = sorted(v, key=str) if isinstance(v, list) else v
    return out
