"""Check runner: tiers, fan-out, evidence, known findings, VIOLATION lines."""

from __future__ import annotations

import argparse
import fnmatch
import hashlib
import json
import multiprocessing as mp
import os
import sys
import time
import traceback

ROOT = os.path.dirname(os.path.dirname(os.path.abspath(__file__)))
EVIDENCE_DIR = os.environ.get("VERIF_EVIDENCE_DIR") or os.path.join(ROOT, "evidence")  # the override is for tools/run_mutant_scratch.sh
REPLAY_DIR = os.path.join(ROOT, "replays")
FINDINGS = os.path.join(ROOT, "known_findings.json")


def ensure_env():
    """Re-exec under PYTHONHASHSEED=0 so set iteration order is reproducible."""
    if os.environ.get("PYTHONHASHSEED") != "0":
        env = dict(os.environ)
        env["PYTHONHASHSEED"] = "0"
        os.execve(sys.executable, [sys.executable] + sys.argv, env)


def load_findings(prop):
    try:
        with open(FINDINGS) as f:
            data = json.load(f)
    except FileNotFoundError:
        return []
    return [e for e in data.get("findings", []) if e.get("property") == prop and e.get("status") == "known"]


def match_finding(findings, signature):
    for f in findings:
        if fnmatch.fnmatchcase(signature, f["match"]):
            return f
    return None


def write_replay(prop, payload):
    os.makedirs(REPLAY_DIR, exist_ok=True)
    h = hashlib.blake2b(json.dumps(payload, sort_keys=True, default=str).encode(), digest_size=5).hexdigest()
    path = os.path.join(REPLAY_DIR, f"{prop}-{h}.json")
    with open(path, "w") as f:
        json.dump(payload, f, indent=1, sort_keys=True, default=str)
    return path


_WORKER = {}


def _worker_run(arg):
    modname, job = arg
    try:
        import importlib

        mod = importlib.import_module(modname)
        t0 = time.time()
        res = mod.run_job(job)
        res.setdefault("wall_s", round(time.time() - t0, 2))
        res["job"] = job.get("label") or job
        return res
    except BaseException as e:  # harness error: never reported as a violation
        return {"harness_error": f"{type(e).__name__}: {e}", "traceback": traceback.format_exc(), "job": job.get("label")}


def _worker_preflight(arg):
    modname, tier, seed = arg
    import importlib

    mod = importlib.import_module(modname)
    pre = getattr(mod, "preflight", None)
    return pre(tier, seed) if pre else {}


def run_jobs(modname, jobs, nproc=None, tier="quick", seed=0):
    """The parent process never touches stabilize (no threads, no connections
    before fork); preflight and every job run in pool workers."""
    nproc = nproc or int(os.environ.get("VERIF_JOBS", "0")) or min(16, os.cpu_count() or 4)
    nproc = max(1, min(nproc, max(1, len(jobs))))
    ctx = mp.get_context("fork")
    with ctx.Pool(nproc, maxtasksperchild=None) as pool:
        pre_async = pool.apply_async(_worker_preflight, ((modname, tier, seed),))
        it = pool.imap_unordered(_worker_run, [(modname, j) for j in jobs], chunksize=1)
        results = []
        # multiprocessing.Pool never notices a worker that died (killed, segfault): its job is simply lost and the
        # iterator waits for ever.  No job runs longer than its own caps (<= ~20 min), so 45 silent minutes mean a
        # lost job: report it as a harness error instead of hanging.
        stall = float(os.environ.get("VERIF_STALL_S", "2700"))
        for _ in range(len(jobs)):
            try:
                results.append(it.next(timeout=stall))
            except mp.TimeoutError:
                results.append({"harness_error": f"no job finished for {int(stall)} s: a pool worker died and its job was lost "
                                                 f"({len(jobs) - len(results)} job(s) outstanding)", "traceback": "", "job": "?"})
                pool.terminate()
                break
        try:
            pre_info = pre_async.get(timeout=600)
        except Exception as e:  # noqa: BLE001
            pre_info = {"error": repr(e)}
    return results, pre_info


def main(mod):
    ensure_env()
    ap = argparse.ArgumentParser()
    ap.add_argument("--tier", default=os.environ.get("VERIF_TIER") or "quick", choices=["quick", "thorough"])
    ap.add_argument("--replay")
    ap.add_argument("--jobs", type=int, default=0)
    ap.add_argument("--only", help="substring filter on job labels (debugging)")
    args = ap.parse_args()
    seed = int(os.environ.get("VERIF_SEED", "0") or 0)
    prop = mod.PROPERTY
    if args.replay:
        with open(args.replay) as f:
            payload = json.load(f)
        out = mod.replay(payload)
        print(json.dumps(out, indent=1, default=str))
        sys.exit(1 if out.get("violations") else 0)

    t0 = time.time()
    jobs = mod.jobs(args.tier, seed)
    if args.only:
        jobs = [j for j in jobs if args.only in str(j.get("label"))]
    results, pre_info = run_jobs(mod.__name__, jobs, args.jobs, args.tier, seed)
    findings = load_findings(prop)
    harness_errors = [r for r in results if "harness_error" in r]
    new_viol, known_hits = [], {}
    for r in results:
        for v in r.get("violations", []):
            sig = v.get("signature") or f"{v.get('sig')}"
            f = match_finding(findings, sig)
            if f:
                known_hits.setdefault(f["match"], {"finding": f, "n": 0, "example": v, "job": r.get("job_spec") or r.get("job")})
                known_hits[f["match"]]["n"] += 1
            else:
                new_viol.append((r, v))
    agg = mod.aggregate(results, args.tier, seed, pre_info)
    agg["property_id"] = prop
    agg["tier"] = args.tier
    agg["seed"] = seed
    agg["wall_s"] = round(time.time() - t0, 2)
    agg["violations"] = len(new_viol)
    cov = agg["coverage"]
    cov["jobs"] = len(jobs)
    cov["known_findings_hit"] = {k: h["n"] for k, h in known_hits.items()}
    cov["harness_errors"] = len(harness_errors)
    os.makedirs(EVIDENCE_DIR, exist_ok=True)
    with open(os.path.join(EVIDENCE_DIR, f"{prop}.json"), "w") as f:
        json.dump(agg, f, indent=1, sort_keys=True, default=str)
    for k, h in known_hits.items():
        path = write_replay(prop, {"property": prop, "job": h.get("job"), "violation": h["example"], "known_finding": k})
        print(f"KNOWN-FINDING: property={prop} {h['finding'].get('what', k)} [{h['n']} hit(s), match={k}, replay={path}]")
    seen_sig = set()
    for r, v in new_viol:
        sig = v.get("signature") or v.get("sig")
        if sig in seen_sig:
            continue
        seen_sig.add(sig)
        path = write_replay(prop, {"property": prop, "job": r.get("job_spec") or r.get("job"), "violation": v})
        print(f"VIOLATION property={prop} replay={path}")
        print("  " + json.dumps({k: v[k] for k in v if k != "trace"}, default=str)[:600])
    for r in harness_errors:
        print(f"HARNESS-ERROR job={r.get('job')}: {r['harness_error']}", file=sys.stderr)
        print(r.get("traceback", ""), file=sys.stderr)
    print(f"{prop} {args.tier}: {json.dumps(agg.get('coverage', {}).get('headline', {}), default=str)} wall={agg['wall_s']}s")
    if harness_errors:
        sys.exit(2)
    sys.exit(1 if new_viol else 0)
