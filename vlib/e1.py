"""E1 `sched` - explicit-state search over the real handlers (DESIGN.md section 3).

A state is the database image; a transition is one call into the real engine.
Every transition explored IS an implementation step, so trace validation
against the implementation is total by construction.
"""

from __future__ import annotations

import collections
import time

from .view import View, msg_label, take_view
from .world import World, dumps, pack, unpack

DEFAULT_BUDGET = {
    "noack": 0,  # deliveries whose worker dies before the processor mark / before the ack
    "early": 0,  # delayed message delivered before time passes
    "sweep": 0,  # recovery sweeps
    "restart": 0,  # worker restarts (fresh filter)
    "rotate": 0,  # dedup filter rotation
    "spurious": 0,  # extra StartStage for an arbitrary stage
    "cancel": 0,
    "signal": 0,
    "retention": 0,
    "redeliver": 0,  # re-push of an already processed message (dup delivery by the transport)
    "pause": 0,  # operator pause (store.pause)
    "unpause": 0,  # operator resume (Orchestrator.unpause), only after the pause
    "oprestart": 0,  # operator restart of a completed stage (Orchestrator.restart)
    "fault": 0,  # one transient database error raised by the connection before statement i of a delivery
    "cancelregion": 0,  # operator pushes CancelRegion for the region named 'r'
}


LOCK_ROUNDS = 4  # lock_duration 60 s / handler_retry_delay 15 s


class Transition:
    __slots__ = ("pre", "action", "audit", "qlog", "ledger", "exc", "post", "calls", "msg", "mlabel")


class State:
    __slots__ = ("blob", "view", "mon", "budget", "trace", "depth")

    def __init__(self, blob, view, mon, budget, trace):
        self.blob, self.view, self.mon, self.budget, self.trace = blob, view, mon, budget, trace


class Monitor:
    """Plug-in evaluated on every transition / quiescent state."""

    name = "monitor"

    def init(self, ex):
        return None

    def step(self, ex, tr, ms):
        return ms, []

    def final(self, ex, view, ms, state):
        return []


def _classify_trace(v):
    if "REDIRECT" in str(v.get("sig")):
        from .e1jobs import stale_redirect

        return stale_redirect(v.get("trace") or ())
    return None


class Explorer:
    classify_trace = staticmethod(_classify_trace)

    def __init__(self, world: World, workload, monitors, budget=None, *, max_states=200000, time_cap=None,
                 signal_spec=None, trust_negative=False, sweep_at_quiescence=False, setup=None, stop_on_violation=True,
                 audit_bisim=False, actions_filter=None, die_points=("poll", "mark", "ack"), late_restart=False):
        self.w = world
        self.wl = workload
        self.monitors = monitors
        self.budget0 = dict(DEFAULT_BUDGET)
        self.budget0.update(budget or {})
        self.max_states = max_states
        self.time_cap = time_cap
        self.signal_spec = signal_spec or []
        self.trust_negative = trust_negative
        self.setup = setup
        self.stop_on_violation = stop_on_violation
        self.audit_bisim = audit_bisim
        self.actions_filter = actions_filter
        self.die_points = die_points
        self.late_restart = late_restart
        self._stmt_cache = {}
        self._viol_classes = {}
        self.sweep_at_quiescence = sweep_at_quiescence
        # results
        self.states = 0
        self.transitions = 0
        self.violations = []
        self.capped = False
        self.action_counts = collections.Counter()
        self.outcomes = collections.Counter()
        self.quiescent = 0
        self.samples = []
        self.max_depth = 0
        self.exc_counts = collections.Counter()
        self.skip_counts = collections.Counter()
        self.bisim_checked = 0

    # ------------------------------------------------------------------
    def initial(self):
        w = self.w
        if w.pristine is None:
            w.create_schema()
        w.load(w.pristine)
        w.exec_counts = {}
        w.ledger = []
        wf = self.wl.build(w)
        w.incarnate(trust_negative=self.trust_negative)
        if getattr(self.wl, "decoy", None):
            # an older, unrelated workflow in the same store that happens to use the same stage ref_ids with another
            # dependency shape (never started): nothing about the workflow under test may depend on it
            w.store.store(self.wl.decoy_workflow())
            w.drain_audit()
        w._engine_active = bool(getattr(self, "record_start", False))  # E2: commits of Orchestrator.start are crash points too
        try:
            w.orchestrator.start(wf)
        finally:
            w._engine_active = False
        if self.setup:
            self.setup(self, wf)
        w.drain_audit()
        w.normalise_time()
        view = take_view(w)
        mon = {"ec": {}, "flt": None}
        if self.trust_negative:
            from stabilize.queue.dedup import get_deduplicator

            d = get_deduplicator()
            mon["flt"] = [sorted(getattr(d, "told", ())), bool(d.authoritative)]
        for m in self.monitors:
            mon[m.name] = m.init(self)
        return State(pack(w.image()), view, mon, dict(self.budget0), ())

    # ------------------------------------------------------------------
    def enabled(self, st: State):
        v, b = st.view, st.budget
        acts = []
        seen_sig = {}
        ready = [m for m in v.queue if m["elig"] == "ready" and m["attempts"] < m["maxa"]]
        delayed = [m for m in v.queue if m["elig"] == "delayed" and m["attempts"] < m["maxa"]]
        locked = [m for m in v.queue if m["elig"] == "locked"]
        dead = [m for m in v.queue if m["attempts"] >= m["maxa"] and m["elig"] != "locked"]

        def lab(m):
            base = msg_label(v, m)
            sig = v.scrub(dumps([m["type"], m["payload"], m["attempts"], m["elig"], m["processed"]]))
            if sig in seen_sig:
                return None
            k = sum(1 for s, l in seen_sig.items() if l.split("#")[0] == base)
            seen_sig[sig] = base + (f"#{k}" if k else "")
            return seen_sig[sig]

        for m in sorted(ready, key=lambda m: (msg_label(v, m), m["id"])):
            l = lab(m)
            if l is None:
                self.skip_counts["symmetric-duplicate"] += 1
                continue
            acts.append(("d:" + l, m["id"]))
            if b.get("fault", 0) > 0 and m["id"] == min(x["id"] for x in ready):
                # the oldest ready message only (fault exploration runs on the in-order schedule)
                for i in range(self.count_statements(st, m["id"])):
                    for fk in self.fault_kinds:
                        acts.append((f"df{fk}{i}:" + l, m["id"]))
            if b["noack"] > 0:
                for dp in self.die_points:
                    acts.append((f"d{dp[0]}:" + l, m["id"]))
        if locked:
            acts.append(("expire", None))
        # Timing constraint of the ready/delayed/locked abstraction (DESIGN.md 2.2): a message lock lasts 60 s,
        # the engine's "still waiting, give up" horizon is max_stage_wait_retries x 15 s = 1 h.  The harness
        # shortens that horizon to wait_retries attempts, so while a dead worker's lock is held, time must not be
        # advanced onto the attempt that gives up: the lock lapses first.
        wr = self.w.wait_retries
        gives_up = bool(locked) and any((m["payload"].get("retry_count") or 0) >= wr for m in delayed)
        # ... and a lock (60 s) cannot outlast more than LOCK_ROUNDS re-queue delays (15 s each): after that many
        # 'advance' steps with a lock held, the lock lapses before any more time passes
        lock_spent = bool(locked) and b.get("advl", 0) >= LOCK_ROUNDS
        if delayed and not ready and not gives_up and not lock_spent:
            acts.append(("advance", None))
        if b["early"] > 0:
            for m in sorted(delayed, key=lambda m: (msg_label(v, m), m["id"])):
                if (m["payload"].get("retry_count") or 0) >= wr:
                    continue  # delivering the give-up attempt early only shortens the (already shortened) wait horizon
                l = lab(m)
                if l is not None:
                    acts.append(("early:" + l, m["id"]))
        if dead:
            acts.append(("dlqsweep", None))
        nonq = bool(v.queue)
        if b["sweep"] > 0 and (nonq or self.sweep_at_quiescence):
            acts.append(("sweep", None))
        if b["restart"] > 0 and nonq:
            acts.append(("restart", None))
            if self.late_restart and self.trust_negative:
                acts.append(("restart-foreign", None))  # ... in a process whose filter another store's processor hydrated first
        if b["rotate"] > 0 and nonq:
            acts.append(("rotate", None))  # reset + re-hydrate (the processor's own rotation path)
            if self.trust_negative:
                acts.append(("rotate-bare", None))  # reset only: re-hydration declined / the shared filter was rotated elsewhere
        if b["retention"] > 0 and nonq:
            acts.append(("retention", None))
        if b["cancel"] > 0 and nonq:
            acts.append(("cancel", None))
        if b.get("cancelregion", 0) > 0 and nonq:
            acts.append(("cancelregion", None))
        if b["signal"] > 0:
            idx = len(self.signal_spec) - b["signal"]
            spec = self.signal_spec[idx]
            acts.append((f"signal:{spec['stage']}:{'p' if spec['persistent'] else 't'}", idx))
        if b["pause"] > 0 and v.wf["status"] != "NOT_STARTED":
            # operator pause of a started workflow, also of one that has meanwhile finished (stale operator view);
            # pausing a never-started workflow is sanctioned by the repository's own tests and not explored
            acts.append(("pause", None))
        if b["unpause"] > 0 and b["pause"] == 0 and self.budget0["pause"] > 0:
            acts.append(("unpause", None))
        if b["oprestart"] > 0:
            for lab_, s in v.stages.items():
                if not s["synthetic"] and s["status"] in ("SUCCEEDED", "TERMINAL", "FAILED_CONTINUE", "CANCELED", "STOPPED", "SKIPPED"):
                    acts.append(("oprestart:" + lab_, lab_))
        if b["spurious"] > 0 and nonq:
            for lab_, s in v.stages.items():
                if not s["synthetic"]:
                    acts.append(("spurious:" + lab_, lab_))
        if self.actions_filter:
            acts = [a for a in acts if self.actions_filter(st, a)]
        return acts

    # ------------------------------------------------------------------
    def restore(self, st: State):
        w = self.w
        w.load(unpack(st.blob))
        w.exec_counts = {tuple(k.split("|", 1)): n for k, n in st.mon["ec"].items()}
        w.ledger = []
        w.handler_calls.clear()
        w.dangling_txn = False
        flt = st.mon.get("flt")
        if flt is not None:
            w.fresh_filter(flt[0], flt[1])
        else:
            w.fresh_filter()

    def apply(self, st: State, action):
        """Run one action on the real engine from state st; returns Transition + new budget."""
        w = self.w
        self.restore(st)
        name, arg = action
        b = dict(st.budget)
        tr = Transition()
        tr.pre, tr.action, tr.exc, tr.msg, tr.mlabel = st.view, name, None, None, None
        kind = name.split(":", 1)[0]
        if kind.startswith("df"):
            b["fault"] -= 1
            tr.mlabel = name.split(":", 1)[1]
            tr.msg, tr.exc = self.deliver_with_fault(arg, kind[2], int(kind[3:]))
        elif kind in ("d", "dm", "da", "dp", "early"):
            die = {"dm": "mark", "da": "ack", "dp": "poll"}.get(kind)
            if die:
                b["noack"] -= 1
            if kind == "early":
                b["early"] -= 1
            tr.mlabel = name.split(":", 1)[1]
            tr.msg, tr.exc = w.deliver(arg, die_at=die)
            if die == "poll":
                tr.msg = None  # claimed, never handled: to every monitor this is not a delivery
        elif kind == "expire":
            w.expire()
        elif kind == "advance":
            if any(m["elig"] == "locked" for m in st.view.queue):
                b["advl"] = b.get("advl", 0) + 1
            w.advance()
        elif kind == "dlqsweep":
            w.queue.check_and_move_expired()
        elif kind == "sweep":
            b["sweep"] -= 1
            w.run_recovery()
        elif kind in ("restart", "restart-foreign"):
            b["restart"] -= 1
            if self.late_restart:
                # the worker stayed down for days: every processed record written so far is now old (nothing
                # deletes them - the retention sweep is a separate, explicit action)
                w.conn.execute("UPDATE processed_messages SET processed_at = datetime(processed_at, '-3 days')")
                w.conn.commit()
            w.incarnate(trust_negative=self.trust_negative, foreign_first=(kind == "restart-foreign"))
        elif kind == "rotate":
            b["rotate"] -= 1
            from stabilize.queue.dedup import get_deduplicator

            get_deduplicator().reset()
            w.processor._hydrate_deduplicator()
        elif kind == "rotate-bare":
            b["rotate"] -= 1
            from stabilize.queue.dedup import get_deduplicator

            get_deduplicator().reset()
        elif kind == "retention":
            b["retention"] -= 1
            w.store.cleanup_completed_stage_claims()
            w.store.cleanup_old_processed_messages(max_age_hours=0.0)
        elif kind == "cancelregion":
            b["cancelregion"] -= 1
            from stabilize.queue.messages import CancelRegion

            w.queue.push(CancelRegion(execution_type="PIPELINE", execution_id=st.view.exec_id, region="r"))
        elif kind == "cancel":
            b["cancel"] -= 1
            wf = w.store.retrieve(st.view.exec_id)
            w.orchestrator.cancel(wf, "verif", "injected")
        elif kind == "signal":
            b["signal"] -= 1
            spec = self.signal_spec[arg]
            from stabilize.hitl import send_signal

            send_signal(w.queue, st.view.exec_id, st.view.stage_ids[spec["stage"]], spec.get("name", "go"),
                        spec.get("data", {"n": arg}), persistent=spec["persistent"])
        elif kind == "pause":
            b["pause"] -= 1
            w.store.pause(st.view.exec_id, "verif")
        elif kind == "unpause":
            b["unpause"] -= 1
            w.orchestrator.unpause(w.store.retrieve(st.view.exec_id))
        elif kind == "oprestart":
            b["oprestart"] -= 1
            w.orchestrator.restart(w.store.retrieve(st.view.exec_id), st.view.stage_ids[arg])
        elif kind == "spurious":
            b["spurious"] -= 1
            from stabilize.queue.messages import StartStage

            w.queue.push(StartStage(execution_type="PIPELINE", execution_id=st.view.exec_id,
                                    stage_id=st.view.stage_ids[arg]))
        else:
            raise RuntimeError("harness: unknown action " + name)
        tr.audit, tr.qlog = w.drain_audit()
        w.normalise_time()
        tr.post = take_view(w)
        tr.ledger = list(w.ledger)
        tr.calls = list(w.handler_calls)
        if "advl" in b and not any(m["elig"] == "locked" for m in tr.post.queue):
            del b["advl"]  # no lock held any more: the count starts afresh with the next lock
        return tr, b

    # L: sqlite "database is locked" (the engine does not classify it transient), T: ConnectionError (classified
    # transient: re-raised, the processor reschedules the message), E: sqlite "disk I/O error"
    fault_kinds = ("L",)

    def count_statements(self, st, row_id):
        """Statements the engine executes while this delivery is handled (dry run on the restored state)."""
        from .world import HOOKS

        k = (st.view.key({"b": st.budget}), row_id)
        n = self._stmt_cache.get(k)
        if n is None:
            w = self.w
            self.restore(st)
            c = [0]

            def count(conn, sql, params):
                if w._engine_active:
                    c[0] += 1

            HOOKS.pre_execute = count
            try:
                w.deliver(row_id)
            finally:
                HOOKS.pre_execute = None
            if w.conn.in_transaction:
                w.conn.rollback()
            n = self._stmt_cache[k] = c[0]
        return n

    def deliver_with_fault(self, row_id, fk, i):
        import sqlite3

        from .world import HOOKS

        w = self.w
        fired = {"n": 0, "done": False}

        def inject(conn, sql, params):
            if not w._engine_active or fired["done"]:
                return
            if fired["n"] == i:
                fired["done"] = True
                if fk == "T":  # an error the engine classifies as transient (re-raised to the processor, rescheduled)
                    raise ConnectionError("connection reset by peer")
                raise sqlite3.OperationalError("database is locked" if fk == "L" else "disk I/O error")
            fired["n"] += 1

        HOOKS.pre_execute = inject
        try:
            return w.deliver(row_id)
        finally:
            HOOKS.pre_execute = None

    def fold(self, st: State, tr: Transition, budget):
        """Monitor updates; returns (new State, violations)."""
        w = self.w
        mon = {}
        ec = {"|".join(k): n for k, n in w.exec_counts.items()}
        # a task row durably re-armed (-> NOT_STARTED) starts a new arming
        for (_seq, tbl, ident, old, new) in tr.audit:
            if tbl == "T" and new == "NOT_STARTED" and old is not None:
                tl = tr.post.labels.get(ident)
                if tl:
                    slab, tname = tl.split("#", 1)
                    ec.pop(slab.split("/")[-1] + "|" + tname.split("~")[0], None)
        mon["ec"] = ec
        mon["flt"] = self.filter_state(st, tr)
        viols = []
        for m in self.monitors:
            ms, vs = m.step(self, tr, st.mon.get(m.name))
            mon[m.name] = ms
            for v in vs:
                v.setdefault("monitor", m.name)
            viols.extend(vs)
        if getattr(w, "dangling_txn", False):
            c = w.conn
            if c.in_transaction:
                c.rollback()
        ns = State(None, tr.post, mon, budget, st.trace + (tr.action,))
        return ns, viols

    def filter_state(self, st, tr):
        """Contents of the in-memory dedup filter (only tracked when its negatives are trusted)."""
        if not self.trust_negative:
            return None
        from stabilize.queue.dedup import get_deduplicator

        d = get_deduplicator()
        return [sorted(getattr(d, "told", ())), bool(d.authoritative)]

    def key(self, st: State):
        return st.view.key({"m": st.mon, "b": st.budget})

    # ------------------------------------------------------------------
    def run(self):
        t0 = time.time()
        init = self.initial()
        seen = {self.key(init): 0}
        succ = {} if self.audit_bisim else None
        frontier = collections.deque([init])
        self.states = 1
        while frontier:
            if self.states >= self.max_states or (self.time_cap and time.time() - t0 > self.time_cap):
                self.capped = True
                break
            st = frontier.popleft()
            acts = self.enabled(st)
            if not st.view.queue:
                self.quiescent += 1
                self.outcomes[dumps(st.view.outcome())] += 1
                for m in self.monitors:
                    for v in m.final(self, st.view, st.mon.get(m.name), st):
                        v.setdefault("monitor", m.name)
                        self.record_violation(v, st.trace)
                if len(self.samples) < 3:
                    self.samples.append(list(st.trace))
            elif not acts:
                self.record_violation({"kind": "stuck", "detail": "non-empty queue but no enabled action",
                                       "queue": [msg_label(st.view, m) for m in st.view.queue]}, st.trace)
            for action in acts:
                tr, b = self.apply(st, action)
                self.transitions += 1
                self.action_counts[action[0].split(":", 1)[0]] += 1
                if tr.exc is not None:
                    self.exc_counts[type(tr.exc).__name__] += 1
                ns, viols = self.fold(st, tr, b)
                for v in viols:
                    self.record_violation(v, ns.trace)
                if viols and self.stop_on_violation:
                    continue
                k = self.key(ns)
                if succ is not None:
                    succ.setdefault(self.key(st), set()).add((action[0], k))
                if k in seen:
                    continue
                seen[k] = len(ns.trace)
                ns.blob = pack(self.w.image())
                self.states += 1
                self.max_depth = max(self.max_depth, len(ns.trace))
                frontier.append(ns)
            st.blob = None
            st.view = None
        self.wall = time.time() - t0
        return self

    def record_violation(self, v, trace):
        v = dict(v)
        v["trace"] = list(trace)
        v["workload"] = self.wl.name
        # keep the first few instances of every distinct class (a frequent known class must not crowd out a new one)
        cls = (v.get("sig"), self.classify_trace(v) if self.classify_trace else None)
        n = self._viol_classes.get(cls, 0)
        self._viol_classes[cls] = n + 1
        if n < 3 and len(self.violations) < 600:
            self.violations.append(v)
        else:
            self.violations_dropped = getattr(self, "violations_dropped", 0) + 1

    # ------------------------------------------------------------------
    def replay(self, trace):
        """Re-run a recorded action list from the initial state (used for replay
        files and for the determinism self-check).  Returns list of (action, key)."""
        st = self.initial()
        st.blob = pack(self.w.image()) if st.blob is None else st.blob
        out = [("init", self.key(st).hex())]
        all_viol = []
        for name in trace:
            acts = dict(self.enabled(st))
            if name not in acts:
                raise RuntimeError(f"harness: replay diverged, action {name!r} not enabled; enabled={list(acts)}")
            tr, b = self.apply(st, (name, acts[name]))
            ns, viols = self.fold(st, tr, b)
            ns.blob = pack(self.w.image())
            all_viol.extend(viols)
            out.append((name, self.key(ns).hex()))
            st = ns
        if not st.view.queue:
            for m in self.monitors:
                all_viol.extend(m.final(self, st.view, st.mon.get(m.name), st))
        return out, all_viol, st

    def summary(self):
        return {
            "workload": self.wl.name,
            "budget": {k: v for k, v in self.budget0.items() if v},
            "states": self.states,
            "transitions": self.transitions,
            "quiescent_states": self.quiescent,
            "distinct_outcomes": len(self.outcomes),
            "max_depth": self.max_depth,
            "capped": self.capped,
            "actions": dict(self.action_counts),
            "handler_exceptions": dict(self.exc_counts),
            "skipped": dict(self.skip_counts),
            "wall_s": round(getattr(self, "wall", 0.0), 2),
            "violations": len(self.violations),
        }


def fifo_reference(world, workload, *, monitors=(), trust_negative=False, setup=None, max_steps=2000):
    """In-order exactly-once run (the crash-free, duplicate-free reference)."""
    ex = Explorer(world, workload, list(monitors), {}, trust_negative=trust_negative, setup=setup)
    st = ex.initial()
    steps = 0
    ledger = []
    while st.view.queue and steps < max_steps:
        acts = ex.enabled(st)
        # FIFO = lowest queue row id among ready; else advance/expire
        ready = [(name, arg) for name, arg in acts if name.startswith("d:")]
        if ready:
            act = min(ready, key=lambda a: a[1])
        else:
            act = acts[0]
        tr, b = ex.apply(st, act)
        ledger.extend(tr.ledger)
        st, _ = ex.fold(st, tr, b)
        st.blob = pack(world.image())
        steps += 1
    return st, ledger
