"""Shared plumbing for checks built on E1."""

from __future__ import annotations

import collections

from . import workloads as W
from .e1 import Explorer, fifo_reference
from .world import World, dumps

_WORLDS = {}


def world(events=False):
    w = _WORLDS.get(events)
    if w is None:
        w = World(events=events)
        w.create_schema()
        _WORLDS[events] = w
    return w


def make_workload(spec):
    name, args, kwargs = spec
    f = getattr(W, name)
    return f(*args, **kwargs)


def wl(name, *args, **kwargs):
    return [name, list(args), kwargs]


def dag_workload(n, idx, halt=None):
    shape = W.dag_shapes(n)[idx]
    if halt is None:
        return W.Workload(f"dag{n}_{idx}", [W.St(r, deps) for r, deps in shape])
    st = [W.St(r, deps, tasks=[("t", {"kind": "terminal"})] if r == halt else None) for r, deps in shape]
    return W.Workload(f"dag{n}_{idx}_halt{halt}", st, klass="racy")


W.dag_workload = dag_workload


def in_order_filter(st, a):
    """actions_filter: deliveries (with or without an injected fault / worker death) only of the oldest ready
    message; every non-delivery action stays enabled."""
    name = a[0].split(":", 1)[0]
    if not (name == "d" or name.startswith("df") or name in ("dm", "da", "dp")):
        return True
    ready = [m["id"] for m in st.view.queue if m["elig"] == "ready" and m["attempts"] < m["maxa"]]
    return bool(ready) and a[1] == min(ready)


def reference_outcomes(w, workload, all_orders=False, **kw):
    """Admissible outcome set: FIFO outcome for confluent workloads, every
    outcome reachable by reordering alone (no fault) for racy ones."""
    st, ledger = fifo_reference(w, workload, **kw)
    fifo = dumps(st.view.outcome())
    if workload.klass == "confluent" and not all_orders:
        return {fifo}, ledger, None
    from .monitors import MaxExecCollector

    col = MaxExecCollector()
    ex = Explorer(w, workload, [col], {}, **kw).run()
    ex.ref_max = col.max
    ex.fifo_status = {lab: s_["status"] for lab, s_ in st.view.stages.items()}
    outs = set(ex.outcomes) | {fifo}
    return outs, ledger, ex


def stale_redirect(trace):
    """True iff the trace contains the history of the recorded 'stale CompleteTask(REDIRECT)' defect: the n-th
    CompleteTask(REDIRECT) of a stage is delivered after the n-th JumpToStage of that stage was handled AND the
    stage's task was started again in between.  (A REDIRECT wedge reached any other way is a different failure.)"""
    ct, jumps = {}, {}
    for i, t in enumerate(trace):
        p = t.split(":")
        if p[0] != "d" or len(p) < 3:
            continue
        if p[1] == "JumpToStage":
            jumps.setdefault(p[2].split("->")[0], []).append(i)
        elif p[1] == "CompleteTask" and t.split("(")[0].endswith("=REDIRECT"):
            stage = p[2]
            n = ct.get(stage, 0)  # this is the (n+1)-th REDIRECT completion of the stage
            ct[stage] = n + 1
            js = jumps.get(stage, [])
            if len(js) > n and any(x.startswith(f"d:StartTask:{stage}:") for x in trace[js[n]:i]):
                return True
    return False


def result_from(ex, prop_engine="e1", extra=None):
    res = ex.summary()
    viols = []
    for v in ex.violations:
        v = dict(v)
        v["signature"] = f"{prop_engine}:{v.get('sig')}"
        if "REDIRECT" in str(v.get("sig")) and stale_redirect(v.get("trace") or ()):
            v["signature"] += "@stale-redirect-after-restart"
        viols.append(v)
    res["violations"] = viols
    res["samples"] = ex.samples[:2]
    if extra:
        res.update(extra)
    return res


def aggregate_e1(results, tier, seed, pre_info, *, level="model_checking", assumptions=(), rule=None, extra_cov=None):
    good = [r for r in results if "harness_error" not in r]
    states = sum(r.get("states", 0) for r in good)
    trans = sum(r.get("transitions", 0) for r in good)
    capped = [r["job"] for r in good if r.get("capped")]
    actions = collections.Counter()
    excs = collections.Counter()
    for r in good:
        actions.update(r.get("actions", {}))
        excs.update(r.get("handler_exceptions", {}))
    samples = []
    for r in good:
        for s in r.get("samples", [])[:1]:
            if len(samples) < 3:
                samples.append({"job": r["job"], "actions": s})
    if not samples:
        samples = [{"note": "no quiescent trace recorded"}]
    per_job = [
        {k: r.get(k) for k in ("job", "states", "transitions", "quiescent_states", "distinct_outcomes", "max_depth",
                               "capped", "wall_s", "budget")}
        for r in good
    ]
    cov = {
        "states": max(states, 1),
        "transitions": max(trans, 1),
        "traces_validated_against_impl": trans,
        "samples": samples,
        "exhaustive": not capped,
        "capped_jobs": capped,
        "actions": dict(actions),
        "handler_exceptions_rescheduled": dict(excs),
        "quiescent_states": sum(r.get("quiescent_states", 0) for r in good),
        "distinct_outcomes_total": sum(r.get("distinct_outcomes", 0) for r in good),
        "per_job": per_job if len(per_job) <= 80 else per_job[:80] + [{"note": f"{len(per_job) - 80} more"}],
        "rule": rule or "every transition is one call into the real engine on a forked database image; states deduplicated on the canonical key",
        "preflight": pre_info,
        "headline": {"jobs": len(good), "states": states, "transitions": trans, "capped": len(capped)},
    }
    if extra_cov:
        cov.update(extra_cov)
    return {
        "level": level,
        "coverage": cov,
        "assumptions": list(assumptions) or [
            "SQLite backend only; SQLite atomic commit and CPython trusted",
            "time is abstracted to ready/delayed and locked/unlocked (DESIGN.md 2.2); clock-dependent branches not exercised",
            "circuit breaker always closed; lock heartbeat thread disabled",
            "canonical-state merging is sound per DESIGN.md 2.4 (checked by the abstraction audit in the thorough tier of C02)",
        ],
    }
