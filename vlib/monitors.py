"""Transition / terminal monitors used by E1 (and reused by E2/E3 on audit rows)."""

from __future__ import annotations

from .e1 import Monitor
from .world import dumps

COMPLETE = {"SUCCEEDED", "FAILED_CONTINUE", "TERMINAL", "CANCELED", "STOPPED", "SKIPPED"}
CONTINUABLE = {"SUCCEEDED", "FAILED_CONTINUE", "SKIPPED"}
HALT = {"TERMINAL", "CANCELED", "STOPPED"}

# Pinned copy of the published transition table (models/status.py VALID_TRANSITIONS).
# The check diffs this against the live table and fails loudly on drift, so
# editing the table in the repository cannot silence the C06 oracle.
PINNED_TRANSITIONS = {
    "NOT_STARTED": {"RUNNING", "CANCELED", "SKIPPED", "BUFFERED", "TERMINAL"},
    "BUFFERED": {"NOT_STARTED", "RUNNING", "CANCELED", "SKIPPED"},
    "RUNNING": {"SUCCEEDED", "FAILED_CONTINUE", "TERMINAL", "CANCELED", "PAUSED", "STOPPED", "SUSPENDED", "REDIRECT",
                "SKIPPED"},
    "PAUSED": {"RUNNING", "CANCELED", "STOPPED"},
    "SUSPENDED": {"RUNNING", "CANCELED", "STOPPED"},
    "REDIRECT": {"RUNNING", "SUCCEEDED", "CANCELED"},
    "SUCCEEDED": set(), "FAILED_CONTINUE": set(), "TERMINAL": set(), "CANCELED": set(), "STOPPED": set(),
    "SKIPPED": set(),
}

FINAL_STEPS = ("ok", "terminal", "raise", "failed_continue", "resumed")


def table_drift():
    from stabilize.models.status import VALID_TRANSITIONS

    live = {k.name: {t.name for t in v} for k, v in VALID_TRANSITIONS.items()}
    return None if live == PINNED_TRANSITIONS else {"live": {k: sorted(v) for k, v in live.items()}}


def handling(tr):
    """Message type being handled in this transition (None for non-delivery actions)."""
    if tr.msg is None:
        return None
    return type(tr.msg).__name__


# ---------------------------------------------------------------------------
class OutcomeMonitor(Monitor):
    """C02/C10 terminal oracle: outcome at quiescence is in the admissible set."""

    name = "outcome"

    def __init__(self, admissible, what="outcome"):
        self.admissible = set(admissible)
        self.what = what

    def final(self, ex, view, ms, state):
        o = dumps(view.outcome())
        if o not in self.admissible:
            return [{"kind": "outcome-differs", "observed": view.outcome(),
                     "admissible": sorted(self.admissible)[:3], "sig": "outcome-differs:" + diagnose(view)}]
        return []


def diagnose(view):
    """Short, specific description of how a quiescent state differs (used in
    violation signatures so that known findings stay narrow)."""
    wf = view.wf["status"]
    parts = [f"wf={wf}"]
    for lab, s in sorted(view.stages.items()):
        if s["status"] in ("RUNNING", "NOT_STARTED"):
            ts = ",".join(t[1] for t in s["tasks"])
            parts.append(f"{'syn' if s['synthetic'] else 'stage'}={s['status']}({ts})")
    return ";".join(sorted(set(parts)))


class ExecOnceMonitor(Monitor):
    """C02 transition oracle: a task whose result has been recorded is never
    executed again in the same arming; a task only executes while durably RUNNING."""

    name = "once"

    def __init__(self, allow_inflight_rerun=False):
        self.allow_inflight_rerun = allow_inflight_rerun

    def init(self, ex):
        return {}

    def step(self, ex, tr, ms):
        ms = dict(ms)
        v = []
        for (_s, tbl, ident, old, new) in tr.audit:
            if tbl == "T" and new == "NOT_STARTED" and old is not None:
                tl = tr.post.labels.get(ident)
                if tl:
                    ms.pop(tl, None)
        for e in tr.ledger:
            tl = f"{e['stage']}#{e['task']}"
            # locate the task in the pre-state
            pre_stage = None
            for lab, s in tr.pre.stages.items():
                if lab.split("/")[-1] == e["stage"]:
                    pre_stage = s
            status = None
            if pre_stage:
                for t in pre_stage["tasks"]:
                    if t[0] == e["task"]:
                        status = t[1]
            if status != "RUNNING":
                v.append({"kind": "executed-while-not-running", "task": tl, "status": status,
                          "sig": f"executed-while-{status}:{tl}"})
            if ms.get(tl):
                v.append({"kind": "re-executed-after-result-recorded", "task": tl, "step": e["step"],
                          "handling": handling(tr), "sig": f"re-executed:{e['step'].rstrip('0123456789')}"})
            step = e["step"] or ""
            final = step in FINAL_STEPS or step.startswith("jump")
            if final and tr.exc is None:
                ms[tl] = 1  # the handler returned: the result is durably recorded
        return ms, v


class LegalTransitionMonitor(Monitor):
    """C06: every durable status change is in the published table; a completed
    status is left only while handling JumpToStage/RestartStage and only to
    NOT_STARTED (stage, task) or RUNNING (workflow restart)."""

    name = "legal"

    def step(self, ex, tr, ms):
        return ms, check_audit_rows(tr.audit, handling(tr), tr.post.labels)


def check_audit_rows(audit, handler_name, labels):
    v = []
    for (_s, tbl, ident, old, new) in audit:
        if tbl not in ("W", "S", "T") or old is None:
            continue
        lab = labels.get(ident, ident)
        ent = {"W": "workflow", "S": "stage", "T": "task"}[tbl]
        if old in COMPLETE:
            rearm = handler_name in ("JumpToStage", "RestartStage")
            ok = rearm and ((tbl in ("S", "T") and new == "NOT_STARTED") or (tbl == "W" and new == "RUNNING"))
            if not ok:
                v.append({"kind": "completed-status-changed", "entity": ent, "id": lab, "old": old, "new": new,
                          "handling": handler_name, "sig": f"completed-changed:{ent}:{old}->{new}:{handler_name}"})
            continue
        if new not in PINNED_TRANSITIONS.get(old, set()):
            # re-arm of an unfinished entity by a jump / restart is the documented exception
            if handler_name in ("JumpToStage", "RestartStage") and new in ("NOT_STARTED",):
                continue  # explicit re-arm for another run
            v.append({"kind": "illegal-transition", "entity": ent, "id": lab, "old": old, "new": new,
                      "handling": handler_name, "sig": f"illegal:{ent}:{old}->{new}:{handler_name}"})
    return v


class QuiescenceMonitor(Monitor):
    """C05: at quiescence the workflow is final or explicitly waiting; outcome function consistent."""

    name = "quiet"

    def __init__(self, fault_free_dlq=True):
        self.fault_free_dlq = fault_free_dlq

    def final(self, ex, view, ms, state):
        return check_quiescent(view, expect_empty_dlq=self.fault_free_dlq)


def check_quiescent(view, expect_empty_dlq=True):
    v = []
    wf = view.wf["status"]
    top = {lab: s for lab, s in view.stages.items() if not s["synthetic"]}
    waiting = any(s["status"] in ("SUSPENDED", "PAUSED") for s in view.stages.values()) or wf in ("BUFFERED", "PAUSED")
    if wf not in COMPLETE and not waiting:
        v.append({"kind": "stuck-not-final", "wf": wf, "stages": {l: s["status"] for l, s in view.stages.items()},
                  "sig": "stuck:" + diagnose(view)})
    if wf == "SUCCEEDED":
        bad = {l: s["status"] for l, s in top.items() if s["status"] not in CONTINUABLE}
        if bad:
            v.append({"kind": "succeeded-with-unfinished-stage", "stages": bad, "sig": "succeeded-unfinished"})
    if any(s["status"] == "TERMINAL" for s in top.values()) and wf == "SUCCEEDED":
        v.append({"kind": "succeeded-with-terminal-stage", "sig": "succeeded-terminal"})
    if wf in COMPLETE:
        run = {l: s["status"] for l, s in view.stages.items() if s["status"] == "RUNNING"}
        trun = {l: [t[0] for t in s["tasks"] if t[1] == "RUNNING"] for l, s in view.stages.items()}
        trun = {l: t for l, t in trun.items() if t}
        if run or trun:
            v.append({"kind": "running-under-finished-workflow", "stages": run, "tasks": trun, "wf": wf,
                      "sig": f"running-under-finished:{wf}"})
    # a dead-lettered message is only this property's business when the workflow it belonged to is NOT final: then the
    # message that would have moved it on is gone (a poison message of a finished workflow is merely noise)
    if expect_empty_dlq and view.dlq and wf not in COMPLETE:
        v.append({"kind": "dlq-not-empty", "dlq": [m["type"] for m in view.dlq],
                  "sig": "dlq-not-empty:" + ",".join(sorted({m["type"] for m in view.dlq})) + f":wf={view.wf['status']}"})
    return v


class DependencyMonitor(Monitor):
    """C03: a stage leaves NOT_STARTED for RUNNING only when its join condition
    holds on the durable upstream statuses (pre-state), unless it is a jump target."""

    name = "deps"

    def init(self, ex):
        return {"started": [], "targets": []}

    def step(self, ex, tr, ms):
        v = []
        started = set(ms["started"])
        # the only exception the property grants: the explicit target named by a JumpToStage message
        targets = set(ms.get("targets", []))
        if tr.msg is not None and type(tr.msg).__name__ == "JumpToStage" and tr.exc is None:
            targets.add(tr.msg.target_stage_ref_id)
        for (_s, tbl, ident, old, new) in tr.audit:
            if tbl != "S":
                continue
            lab = tr.post.labels.get(ident, ident)
            if new == "NOT_STARTED" and old is not None:
                started.discard(lab)
            if not (old == "NOT_STARTED" and new == "RUNNING"):
                continue
            started.add(lab)
            spec = ex.wl.spec(lab)
            if spec is None or not spec.deps:
                continue
            pre = tr.pre.stages.get(lab)
            if pre is None:
                continue
            if lab in targets:
                targets.discard(lab)
                continue
            ups = {d: tr.pre.stages[d]["status"] for d in spec.deps}
            okc = [d for d, s in ups.items() if s in CONTINUABLE]
            halted = [d for d, s in ups.items() if s in HALT]
            good = True
            why = ""
            j = spec.join
            if j == "AND" or (j == "N_OF_M" and spec.threshold <= 0):
                good = len(okc) == len(ups)
                why = "AND join needs every upstream continuable"
            elif j == "N_OF_M":
                good = len(okc) >= spec.threshold
                why = f"quorum needs {spec.threshold}"
            elif j in ("DISCRIMINATOR", "MULTI_MERGE"):
                good = len(okc) >= 1
                why = "needs one finished upstream"
            elif j == "OR":
                # independent of the engine's own bookkeeping (_activated_branches): an upstream either finished in a
                # continuable status, or it sits on a branch the split deselected (itself or one of its ancestors is
                # durably SKIPPED) and will never run; anything else is an activated branch still in flight
                roots = set()  # branch roots the OR-splits upstream have deselected, from their durable outputs
                for a in ex.wl.ancestors(lab):
                    sp = ex.wl.spec(a)
                    if sp is None or sp.split != "OR" or tr.pre.stages[a]["status"] not in CONTINUABLE:
                        continue
                    from stabilize.expressions import ExpressionError, evaluate_expression

                    env = dict(tr.pre.stages[a]["ctx"])
                    env.update(tr.pre.stages[a]["out"])
                    for ref, cond in sp.split_conditions.items():
                        try:
                            on = bool(evaluate_expression(cond, env))
                        except ExpressionError:
                            on = False
                        if not on:
                            roots.add(ref)

                def deselected(u):
                    return u in roots or bool(roots & set(ex.wl.ancestors(u))) or \
                        tr.pre.stages.get(u, {}).get("status") == "SKIPPED"

                good = all(st_ in CONTINUABLE or deselected(u) for u, st_ in ups.items())
                why = "OR join needs every activated branch finished"
            if not good:
                v.append({"kind": "started-before-dependencies", "stage": lab, "join": j, "upstream": ups, "why": why,
                          "halted": halted, "sig": f"early-start:{j}"})
        for e in tr.ledger:
            if e["stage"] not in started and e["stage"] in tr.pre.stages:
                # the stage must have had a durable start in this arming
                st = tr.pre.stages[e["stage"]]["status"]
                if st == "NOT_STARTED":
                    v.append({"kind": "task-ran-in-unstarted-stage", "stage": e["stage"], "sig": "ran-unstarted"})
        return {"started": sorted(started), "targets": sorted(targets)}, v


class DownstreamOfHaltMonitor(Monitor):
    """C03 second half: a stage downstream of a halted stage never runs (jump targets excepted)."""

    name = "halt"

    def step(self, ex, tr, ms):
        v = []
        for e in tr.ledger:
            spec = ex.wl.spec(e["stage"])
            if spec is None:
                continue
            if spec.join != "AND":
                continue
            for a in spec.deps:
                st = tr.pre.stages[a]["status"]
                if st in HALT and not tr.pre.stages[e["stage"]]["ctx"].get("_jump_count"):
                    v.append({"kind": "ran-downstream-of-halted", "stage": e["stage"], "halted": a, "status": st,
                              "sig": "ran-after-halt"})
        return ms, v


class CancelMonitor(Monitor):
    """C17: once the cancel flag is durable no task starts executing; unfinished
    stages end CANCELED; the workflow ends (CANCELED unless in effect finished)."""

    name = "cancel"

    def init(self, ex):
        return {"at": None}

    @staticmethod
    def classify(view):
        recorded = set()
        for m in view.queue:
            if m["type"] == "CompleteTask":
                recorded.add(view.labels.get(m["payload"].get("task_id"), "?"))
        out = {}

        def eff(lab):
            """every task has run to a recorded result (and so have the synthetic
            children); only Complete* bookkeeping is pending"""
            s = view.stages[lab]
            if s["status"] in COMPLETE:
                return True
            if s["status"] != "RUNNING":
                return False
            kids = [k for k, ks in view.stages.items() if ks["parent"] == lab]
            if not s["tasks"] and not kids:
                return False
            tasks_ok = all(t[1] in COMPLETE or (t[1] == "RUNNING" and f"{lab}#{t[0]}" in recorded) for t in s["tasks"])
            return tasks_ok and all(eff(k) for k in kids)

        for lab, s in view.stages.items():
            if s["status"] in COMPLETE:
                out[lab] = "finished:" + s["status"]
            elif eff(lab):
                out[lab] = "effectively-finished"
            else:
                out[lab] = "unfinished"
        return out

    @staticmethod
    def processed(view):
        """the cancel request has been processed: the flag is durable, or the CancelWorkflow message carries its
        processed record (the two commit in this order, so either one means 'accepted')"""
        # (a cancel that reaches an already final workflow is not accepted: the handler records the message and does
        # nothing, so the record alone counts only while the workflow is not final)
        return bool(view.wf.get("canceled")) or (
            view.wf["status"] not in COMPLETE and any(m["type"] == "CancelWorkflow" and m["processed"] for m in view.queue))

    def step(self, ex, tr, ms):
        v = []
        if ms["at"] is None and self.processed(tr.pre):
            # armed from the state itself (a crash image is explored from a fresh monitor state)
            ms = {"at": self.classify(tr.pre), "wf": tr.pre.wf["status"]}
        if ms["at"] is not None:
            for e in tr.ledger:
                v.append({"kind": "task-executed-after-cancel", "task": f"{e['stage']}#{e['task']}",
                          "handling": handling(tr), "sig": f"ran-after-cancel:{handling(tr)}"})
            return ms, v
        if any(tbl == "WC" and str(new) == "1" for (_s, tbl, _i, _o, new) in tr.audit) or self.processed(tr.post):
            ms = {"at": self.classify(tr.post), "wf": tr.post.wf["status"]}
        return ms, v

    def final(self, ex, view, ms, state):
        if ms["at"] is None:
            return []
        v = []
        wf = view.wf["status"]
        if wf not in COMPLETE:
            v.append({"kind": "canceled-workflow-not-final", "wf": wf, "sig": "cancel-not-final:" + diagnose(view)})
        top_unfinished = False
        for lab, cls in ms["at"].items():
            s = view.stages.get(lab)
            if s is None:
                continue
            now = s["status"]
            if cls.startswith("finished:"):
                if now != cls.split(":", 1)[1]:
                    v.append({"kind": "finished-stage-changed-after-cancel", "stage": lab, "was": cls, "now": now,
                              "sig": "finished-changed-after-cancel"})
            elif cls == "effectively-finished":
                if now not in COMPLETE:
                    v.append({"kind": "stage-not-ended-after-cancel", "stage": lab, "now": now,
                              "sig": f"not-ended-after-cancel:{now}"})
            else:
                if not s["synthetic"]:
                    top_unfinished = True
                if now != "CANCELED" and not (s["synthetic"] and now == "NOT_STARTED"):
                    v.append({"kind": "unfinished-stage-not-canceled", "stage": lab, "now": now,
                              "synthetic": s["synthetic"], "sig": f"unfinished-not-canceled:{now}"})
        if top_unfinished and wf in COMPLETE and wf != "CANCELED" and ms.get("wf") not in COMPLETE:
            # TERMINAL wins over CANCELED in the published outcome function when a stage had failed terminally
            if not (wf == "TERMINAL" and any(s["status"] == "TERMINAL" for s in view.stages.values())):
                v.append({"kind": "workflow-not-canceled", "wf": wf, "sig": f"workflow-not-canceled:{wf}"})
        return v


class ExecCountMonitor(Monitor):
    """C10/C14: no task executes more often (per arming) than in the reference run."""

    name = "count"

    def __init__(self, ref_ledger, slack=0, ref_max=None, ref_status=None):
        self.ref_status = ref_status or {}
        self.ref = dict(ref_max or {})
        for e in ref_ledger:
            k = (e["stage"], e["task"])
            self.ref[k] = max(self.ref.get(k, 0), e["nth"] + 1)
        self.slack = slack

    def step(self, ex, tr, ms):
        v = []
        for e in tr.ledger:
            k = (e["stage"], e["task"])
            if e["nth"] + 1 > self.ref.get(k, 0) + self.slack:
                v.append({"kind": "extra-execution", "task": f"{k[0]}#{k[1]}", "nth": e["nth"] + 1,
                          "reference": self.ref.get(k, 0), "step": e["step"], "handling": handling(tr),
                          "sig": f"extra-execution:{(e['step'] or '').rstrip('0123456789')}:ref{self.ref.get(k, 0)}"
                                 f":refstage={self.ref_status.get(k[0], '?')}"})
        return ms, v


class MaxExecCollector(Monitor):
    """Not an oracle: records, over a fault-free exploration, the largest number of
    executions per arming of every task (the reference for racy workloads)."""

    name = "maxexec"

    def __init__(self):
        self.max = {}

    def step(self, ex, tr, ms):
        for e in tr.ledger:
            k = (e["stage"], e["task"])
            self.max[k] = max(self.max.get(k, 0), e["nth"] + 1)
        return ms, []
