"""Canonical view of a database image (DESIGN.md 2.4)."""

from __future__ import annotations

import hashlib
import json

from .world import LATER, dumps

_DONE = {"SUCCEEDED", "FAILED_CONTINUE", "TERMINAL", "CANCELED", "STOPPED", "SKIPPED"}
_DROP_PAYLOAD = ("message_id", "created_at", "last_error", "last_error_type", "execution_type")


class View:
    __slots__ = ("wf", "stages", "queue", "dlq", "claims", "labels", "exec_id", "task_ids", "stage_ids", "events_n")

    def canon_obj(self):
        q = sorted(
            dumps([m["type"], m["payload"], m["attempts"], m["maxa"], m["elig"], m["processed"]]) for m in self.queue
        )
        d = sorted(dumps([m["type"], m["payload"], m["attempts"]]) for m in self.dlq)
        st = {
            lab: [s["status"], s["ctx"], s["out"], s["started"], s["ended"], s["tasks"]] + ([s["erank"]] if "erank" in s else [])
            for lab, s in self.stages.items()
        }
        return {"wf": self.wf, "st": st, "q": q, "d": d, "c": sorted(self.claims)}

    def scrub(self, text: str) -> str:
        for ident, lab in self.labels.items():
            if ident in text:
                text = text.replace(ident, "<" + lab + ">")
        return text

    def key(self, extra=None) -> bytes:
        s = dumps({"v": self.canon_obj(), "x": extra})
        s = self.scrub(s)
        return hashlib.blake2b(s.encode(), digest_size=16).digest()

    def outcome(self):
        """Workflow status + per-stage status + per-task statuses."""
        return {
            "wf": self.wf["status"],
            "stages": {lab: s["status"] for lab, s in self.stages.items()},
            # a task left REDIRECT under a finished stage is the documented trace of a
            # jump ("completed but a decision path was followed"): whether the jump or
            # the CompleteTask(REDIRECT) lands first decides REDIRECT vs SUCCEEDED for
            # that row only, so the two are one outcome.
            "tasks": {
                lab: [("SUCCEEDED" if (t[1] == "REDIRECT" and s["status"] in _DONE) else t[1]) for t in s["tasks"]]
                for lab, s in self.stages.items()
            },
        }

    def pending(self):
        return [m for m in self.queue if m["attempts"] < m["maxa"]]


def take_view(world) -> View:
    c = world.conn
    v = View()
    # a bystander workflow (application 'verif-decoy': stored, never started) may share the database
    rows = c.execute("SELECT id,status,is_canceled,context,start_time,end_time,paused FROM pipeline_executions "
                     "WHERE application != 'verif-decoy'").fetchall()
    if len(rows) != 1:
        raise RuntimeError("harness: expected exactly one workflow")
    w = rows[0]
    v.exec_id = w["id"]
    v.wf = {"status": w["status"], "canceled": int(w["is_canceled"] or 0), "ctx": json.loads(w["context"] or "{}")}
    if w["paused"]:
        # hidden state read by the pause / resume handlers: part of the state identity (wall-clock values dropped)
        pd = json.loads(w["paused"])
        v.wf["paused"] = {"open": pd.get("resume_time") is None, "by": pd.get("paused_by")}
    labels = {w["id"]: "W"}
    srows = c.execute(
        "SELECT id,ref_id,name,status,context,outputs,start_time,end_time,parent_stage_id,synthetic_stage_owner,"
        "requisite_stage_ref_ids FROM stage_executions WHERE execution_id = ? ORDER BY rowid", (w["id"],)
    ).fetchall()
    byid = {r["id"]: r for r in srows}

    def label(r):
        if r["parent_stage_id"] and r["parent_stage_id"] in byid:
            return f"{label(byid[r['parent_stage_id']])}/{r['synthetic_stage_owner']}/{r['name']}"
        return r["ref_id"]

    v.stages = {}
    v.stage_ids = {}
    used = {}
    for r in srows:
        lab = label(r)
        if lab in used:
            used[lab] += 1
            lab = f"{lab}~{used[lab]}"
        else:
            used[lab] = 0
        labels[r["id"]] = lab
        if r["parent_stage_id"]:
            labels[r["ref_id"]] = lab + "@ref"
        v.stage_ids[lab] = r["id"]
        v.stages[lab] = {
            "status": r["status"],
            "ctx": json.loads(r["context"] or "{}"),
            "out": json.loads(r["outputs"] or "{}"),
            "started": r["start_time"] is not None,
            "ended": r["end_time"] is not None,
            "tasks": [],
            "synthetic": bool(r["parent_stage_id"]),
            "parent": labels.get(r["parent_stage_id"]) if r["parent_stage_id"] else None,
            "owner": r["synthetic_stage_owner"],
            "reqs": json.loads(r["requisite_stage_ref_ids"] or "[]"),
        }
    if getattr(world, "time_rank", False):
        ended = sorted({r["end_time"] for r in srows if r["end_time"] is not None})
        for r in srows:
            if r["end_time"] is not None:
                v.stages[labels[r["id"]]]["erank"] = ended.index(r["end_time"])
    v.task_ids = {}
    for r in c.execute("SELECT id,stage_id,name,status,start_time FROM task_executions ORDER BY id"):
        if r["stage_id"] not in byid:
            continue  # a task of the bystander workflow
        slab = labels.get(r["stage_id"], "?")
        st = v.stages.get(slab)
        tl = f"{slab}#{r['name']}"
        if tl in v.task_ids:
            tl = f"{tl}~{len(v.task_ids)}"
        labels[r["id"]] = tl
        v.task_ids[tl] = r["id"]
        if st is not None:
            st["tasks"].append([r["name"], r["status"], r["start_time"] is not None])
    processed = {r[0] for r in c.execute("SELECT message_id FROM processed_messages")}
    v.queue = []
    for r in c.execute(
        "SELECT id,message_type,payload,attempts,max_attempts,deliver_at,locked_until FROM queue_messages ORDER BY id"
    ):
        p = json.loads(r["payload"])
        for k in _DROP_PAYLOAD:
            p.pop(k, None)
        elig = "locked" if r["locked_until"] is not None else ("delayed" if r["deliver_at"] == LATER else "ready")
        v.queue.append(
            {
                "id": r["id"],
                "type": r["message_type"],
                "payload": p,
                "attempts": r["attempts"],
                "maxa": r["max_attempts"],
                "elig": elig,
                "processed": str(r["id"]) in processed,
            }
        )
    v.dlq = []
    for r in c.execute("SELECT original_id,message_type,payload,attempts FROM queue_messages_dlq ORDER BY id"):
        p = json.loads(r["payload"])
        for k in _DROP_PAYLOAD:
            p.pop(k, None)
        v.dlq.append({"id": r["original_id"], "type": r["message_type"], "payload": p, "attempts": r["attempts"]})
    v.claims = [[r[0], labels.get(r[1], r[1])] for r in c.execute("SELECT claim_key, stage_id FROM stage_claims")]
    v.labels = labels
    return v


def msg_label(view: View, m) -> str:
    p = m["payload"]
    lab = m["type"]
    sid = p.get("stage_id")
    if sid:
        lab += ":" + view.labels.get(sid, sid)
    tid = p.get("task_id")
    if tid:
        lab += ":" + view.labels.get(tid, tid).split("#")[-1]
    if m["type"] == "CompleteTask":
        lab += "=" + str(p.get("status"))
    if p.get("retry_count"):
        lab += f"(r{p['retry_count']})"
    if m["type"] == "JumpToStage":
        lab += "->" + str(p.get("target_stage_ref_id"))
    return lab
