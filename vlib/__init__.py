"""Model-checking machinery for rodmena-limited/stabilize (see /verif/DESIGN.md)."""
