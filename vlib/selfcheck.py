"""Proof of ownership of nondeterminism (DESIGN.md 2.2): one recorded execution
replayed twice in this process must give identical canonical states."""

from __future__ import annotations


def determinism():
    from . import workloads as W
    from .e1 import Explorer
    from .e1jobs import world

    w = world()
    wl = W.diamond_multitask()
    ex = Explorer(w, wl, [], {"noack": 1})
    # one fixed schedule: always the last enabled action, with one lost ack
    st = ex.initial()
    trace = []
    from .world import pack

    st.blob = pack(w.image())
    n = 0
    while st.view.queue and n < 200:
        acts = ex.enabled(st)
        a = acts[-1] if n % 3 else acts[0]
        tr, b = ex.apply(st, a)
        st, _ = ex.fold(st, tr, b)
        st.blob = pack(w.image())
        trace.append(a[0])
        n += 1
    r1, _, _ = ex.replay(trace)
    r2, _, _ = ex.replay(trace)
    if r1 != r2:
        raise RuntimeError("harness: replaying one schedule twice gave different canonical states")
    return {"determinism_replay_steps": len(trace), "identical": True}
