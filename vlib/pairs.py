"""E3 'all pairs': at every state of the in-order run of a workload, every pair of messages that are ready at
the same time is handed to two real worker threads (one message each) and every schedule with at most `bound`
preemptions is executed; afterwards the queue is drained in order.

Oracle (what a linearizable pair of handlers guarantees): the outcome is one that handling the two messages one
after the other (either order) can produce, no task body runs more often than in the sequential drain, every
durable status change is legal, every stage leaves NOT_STARTED for RUNNING at most once per arming, the final
state is quiescent-clean."""

from __future__ import annotations

from .e1jobs import make_workload
from .world import dumps


def want_label(view, m):
    p = m["payload"]
    sid = p.get("stage_id")
    return m["type"] + (":" + view.labels.get(sid, sid) if sid else "")


def relation(workload, view, a, b):
    """How the stages of two messages relate (used in signatures so that findings stay narrow)."""
    sa, sb = (view.labels.get(x["payload"].get("stage_id")) for x in (a, b))
    if not sa or not sb:
        return "other"
    if sa == sb:
        return "same-stage"
    try:
        if sb in workload.ancestors(sa) or sa in workload.ancestors(sb):
            return "one-upstream-of-the-other"
    except Exception:  # synthetic stage labels are not in the static graph
        return "synthetic"
    return "unrelated-stages"


def typed(workload, view, m):
    """Message type, with the join kind of the stage a StartStage is about when it is not the default join."""
    t = m["type"]
    if t == "StartStage":
        spec = workload.spec(view.labels.get(m["payload"].get("stage_id"), "?")) if hasattr(workload, "spec") else None
        if spec is not None and spec.join != "AND":
            t += f"<{spec.join}>"
    return t


def oracle(ctx):
    from .monitors import check_audit_rows, check_quiescent

    v = []
    final = ctx["final"]
    if dumps(final.outcome()) not in ctx["ref"]["admissible"]:
        v.append({"kind": "outcome-differs-from-every-sequential-order", "observed": final.outcome(),
                  "sig": "outcome-differs:wf=" + final.wf["status"]})
    for q in check_quiescent(final):
        v.append(q)
    ref_counts, counts = {}, {}
    for e in ctx["ref"]["ledger"]:
        ref_counts[(e["stage"], e["task"])] = ref_counts.get((e["stage"], e["task"]), 0) + 1
    for e in ctx["ledger"]:
        counts[(e["stage"], e["task"])] = counts.get((e["stage"], e["task"]), 0) + 1
    for k, n in counts.items():
        if n > max(1, ref_counts.get(k, 0)):
            v.append({"kind": "task-ran-more-often-than-sequentially", "task": f"{k[0]}#{k[1]}", "runs": n,
                      "sequential": ref_counts.get(k, 0), "sig": "extra-execution"})
    starts = {}
    for r in ctx["audit"]:
        if r[0] == "S" and r[2] == "NOT_STARTED" and r[3] == "RUNNING":
            starts[r[1]] = starts.get(r[1], 0) + 1
        if r[0] == "S" and r[3] == "NOT_STARTED" and r[2] is not None:
            starts[r[1]] = 0  # durably re-armed: a new arming
    for lab, n in starts.items():
        if n > 1:
            v.append({"kind": "stage-started-more-than-once", "stage": lab, "starts": n, "sig": "started-twice"})
    # a durable re-arm (-> NOT_STARTED) is legal only while a JumpToStage / RestartStage is handled; the trigger rows of
    # a concurrent section do not say which handler wrote them, so re-arm rows are left to C06's E1 exploration
    rows = [(0, r[0], r[1], r[2], r[3]) for r in ctx["audit"] if r[3] != "NOT_STARTED"]
    v.extend(check_audit_rows(rows, None, {}))
    return v


def pair_job(job):
    """job: wl, step (number of in-order deliveries before the race), bound, optional shard."""
    from . import e3
    from .e3 import prepare, run_engine_scenario

    workload = make_workload(job["wl"])
    prep = prepare(workload, [], max_steps=job["step"], newest_first=job.get("baseline") == "newest-first")
    empty = {"executions": 0, "points": 0, "_violations": [], "violations": [], "samples": [], "pairs": 0, "job_spec": job,
             "states": 0, "transitions": 0}
    if prep["steps"] < job["step"]:
        return empty  # the run is over before this step
    view = prep["view"]
    ready = [m for m in view.queue if m["elig"] == "ready" and m["attempts"] < m["maxa"]]
    if len(ready) < 2:
        return empty
    tot = dict(empty)
    viols, seen, classes = [], set(), {}
    for i in range(len(ready)):
        for j in range(i + 1, len(ready)):
            a, b = ready[i], ready[j]
            la, lb = want_label(view, a), want_label(view, b)
            if la == lb:
                continue  # duplicates of one message: C04's subject (and not addressable by label)
            s = run_engine_scenario(workload, [], [[la], [lb]], oracle, job["bound"], time_cap=job.get("time_cap", 900),
                                    prepared=prep)
            tot["executions"] += s.get("executions", 0)
            tot["points"] += s.get("points", 0)
            tot["pairs"] += 1
            tot["capped"] = tot.get("capped") or s.get("capped")
            rel = relation(workload, view, a, b)
            pair = "||".join(sorted([typed(workload, view, a), typed(workload, view, b)]))
            for v in s.pop("_violations"):
                v["pair"] = [la, lb]
                v["after_in_order_steps"] = job["step"]
                v["signature"] = f"e3:{v['sig']}@pair:{pair}:{rel}"
                v["workload"] = workload.name
                if v["signature"] not in seen:
                    seen.add(v["signature"])
                    viols.append(v)
            if not tot["samples"]:
                tot["samples"] = s.get("samples", [])[:1]
            for k, n in (s.get("outcome_classes") or {}).items():
                classes[k] = classes.get(k, 0) + n
    tot["violations"] = viols
    tot["states"] = tot["transitions"] = tot["points"]
    tot["outcome_classes"] = dict(list(classes.items())[:4])
    tot["distinct_outcomes"] = len(classes)
    tot["bound"] = job["bound"]
    return tot


def pair_jobs(specs, bound, max_step=70, label="pairs", baselines=("in-order", "newest-first")):
    js = []
    for spec in specs:
        for base in baselines:
            for n in range(0, max_step):
                js.append({"label": f"{label} {spec[0]}{spec[1]}|after {n} {base} deliveries|preemptions<={bound}",
                           "kind": "pairs", "wl": spec, "step": n, "bound": bound, "baseline": base})
    return js
