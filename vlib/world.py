"""Seams, harness world and monitors (DESIGN.md section 2).

Everything here binds the explorers to the *real* stabilize code imported from
/repo/src (editable install).  No stabilize source is modified: every seam is
an assignment to a module global or a constructor argument.
"""

from __future__ import annotations

import json
import logging
import os
import sqlite3
import sys
import zlib

# --- environment that must be fixed before stabilize is imported -----------
os.environ.setdefault("STABILIZE_MAX_STAGE_WAIT_RETRIES", "2")
os.environ.pop("STABILIZE_TASK_LEASE", None)
os.environ.pop("STABILIZE_ISOLATION_MODE", None)
os.environ.pop("MG_DATABASE_URL", None)

logging.disable(logging.CRITICAL)

import resilient_circuit.retry as _rc_retry  # noqa: E402

import stabilize.persistence.connection as _sconn  # noqa: E402
import stabilize.queue.dedup as _dedup  # noqa: E402
from stabilize import (  # noqa: E402
    Orchestrator,
    QueueProcessor,
    SqliteQueue,
    SqliteWorkflowStore,
    TaskRegistry,
)
from stabilize.handlers.run_task.handler import RunTaskHandler  # noqa: E402
from stabilize.queue.dedup import BloomDeduplicator  # noqa: E402
from stabilize.queue.processor.config import QueueProcessorConfig  # noqa: E402
from stabilize.resilience.bulkheads import TaskBulkheadManager  # noqa: E402
from stabilize.resilience.cancellation import reset_cancellation_state  # noqa: E402
from stabilize.resilience.circuits import WorkflowCircuitFactory  # noqa: E402
from stabilize.resilience.config import ResilienceConfig  # noqa: E402

EPOCH = "1970-01-01T00:00:00+00:00"
READY = "2000-01-01T00:00:00+00:00"
LATER = "2999-01-01T00:00:00+00:00"
PAST = "1999-01-01T00:00:00+00:00"

# ---------------------------------------------------------------------------
# sleep seam
# ---------------------------------------------------------------------------
SLEEP_HOOK = [None]  # E3 installs a yield here


def _no_sleep(_seconds=0):  # pragma: no cover - trivial
    h = SLEEP_HOOK[0]
    if h is not None:
        h()


_rc_retry.sleep = _no_sleep


# ---------------------------------------------------------------------------
# connection seam
# ---------------------------------------------------------------------------
class Die(BaseException):
    """Harness-injected process death (not an Exception: the engine's
    `except Exception` blocks must not see it, exactly like SIGKILL)."""


class Hooks:
    """Per-process hook table consulted by every VConn."""

    def __init__(self):
        self.on_commit = None  # fn(conn) called AFTER the real commit
        self.pre_execute = None  # fn(conn, sql, params) called BEFORE each execute
        self.pre_commit = None  # fn(conn) called BEFORE the real commit
        self.pre_rollback = None
        self.locked_retry = None  # E3: fn(conn, sql) -> True to retry after being rescheduled
        self.fault = None  # fn(conn, sql): may raise an injected fault before the statement runs
        self.commits = 0
        self.statements = 0


HOOKS = Hooks()

# The handlers' millisecond clock (StabilizeHandler.current_time_millis -> start_time / end_time of stages and tasks)
# is owned by the harness: a logical clock that advances by one tick per reading, so that the order of two
# timestamps is exactly the order in which the engine took them - never a tie, never wall-clock jitter.
_LOGICAL_MS = [int(__import__("time").time() * 1000)]  # starts at the real time so that it mixes sanely with wall-clock reads


def _logical_millis(self=None):
    _LOGICAL_MS[0] += 1
    return _LOGICAL_MS[0]


def install_logical_clock():
    from stabilize.handlers.base import StabilizeHandler

    StabilizeHandler.current_time_millis = _logical_millis


class VConn(sqlite3.Connection):
    def execute(self, sql, *a):  # type: ignore[override]
        h = HOOKS
        h.statements += 1
        if h.pre_execute is not None:
            h.pre_execute(self, sql, a[0] if a else None)
        if h.fault is not None:
            h.fault(self, sql)  # may raise an injected error
        if h.locked_retry is None:
            return super().execute(sql, *a)
        if sql.lstrip().upper().startswith("PRAGMA BUSY_TIMEOUT"):
            sql = "PRAGMA busy_timeout = 0"  # E3 models lock waits as blocking (DESIGN.md 2.2)
        while True:
            try:
                return super().execute(sql, *a)
            except sqlite3.OperationalError as e:
                if "locked" not in str(e) or not h.locked_retry(self, sql):
                    raise

    def commit(self):  # type: ignore[override]
        h = HOOKS
        if h.pre_commit is not None:
            h.pre_commit(self)
        if h.locked_retry is None:
            super().commit()
        else:
            while True:
                try:
                    super().commit()
                    break
                except sqlite3.OperationalError as e:
                    if "locked" not in str(e) or not h.locked_retry(self, "COMMIT"):
                        raise
        h.commits += 1
        if h.on_commit is not None:
            h.on_commit(self)

    def rollback(self):  # type: ignore[override]
        h = HOOKS
        if h.pre_rollback is not None:
            h.pre_rollback(self)
        super().rollback()


class _Sqlite3Shim:
    """Stands in for the `sqlite3` module inside stabilize.persistence.connection."""

    def __getattr__(self, name):
        return getattr(sqlite3, name)

    @staticmethod
    def connect(*a, **k):
        k.setdefault("factory", VConn)
        return sqlite3.connect(*a, **k)


_sconn.sqlite3 = _Sqlite3Shim()


class RecordingDedup(BloomDeduplicator):
    """The real filter; additionally remembers what it was told so that the
    explorer can re-materialise it after forking a state (DESIGN.md 2.2)."""

    def __init__(self, *a, **k):
        super().__init__(*a, **k)
        self.told = set()

    def mark_seen(self, message_id):
        self.told.add(message_id)
        return super().mark_seen(message_id)

    def hydrate(self, message_ids):
        ids = list(message_ids)
        self.told.update(ids)
        return super().hydrate(ids)

    def reset(self):
        self.told = set()
        return super().reset()


# ---------------------------------------------------------------------------
# circuit breaker seam: always a fresh, closed, real circuit
# ---------------------------------------------------------------------------
class FreshCircuitFactory(WorkflowCircuitFactory):
    def get_circuit(self, workflow_execution_id, task_type):  # type: ignore[override]
        with self._lock:
            self._circuits.clear()
        from resilient_circuit.storage import InMemoryStorage

        self._storage = InMemoryStorage()
        return super().get_circuit(workflow_execution_id, task_type)


_RES_CONFIG = ResilienceConfig.from_env()
_BULKHEADS = [None]


def bulkheads():
    if _BULKHEADS[0] is None:
        _BULKHEADS[0] = TaskBulkheadManager(_RES_CONFIG)
    return _BULKHEADS[0]


# ---------------------------------------------------------------------------
# harness monitor tables (live in the same database, so they roll back with
# the transaction that caused them: only DURABLE changes are ever seen)
# ---------------------------------------------------------------------------
MONITOR_DDL = """
CREATE TABLE IF NOT EXISTS v_audit(seq INTEGER PRIMARY KEY AUTOINCREMENT, tbl TEXT, id TEXT, old TEXT, new TEXT);
CREATE TABLE IF NOT EXISTS v_qlog(seq INTEGER PRIMARY KEY AUTOINCREMENT, q TEXT, op TEXT, id INTEGER, mtype TEXT, payload TEXT);
CREATE TRIGGER IF NOT EXISTS v_w_u AFTER UPDATE OF status ON pipeline_executions WHEN OLD.status IS NOT NEW.status
  BEGIN INSERT INTO v_audit(tbl,id,old,new) VALUES('W',NEW.id,OLD.status,NEW.status); END;
CREATE TRIGGER IF NOT EXISTS v_w_c AFTER UPDATE OF is_canceled ON pipeline_executions WHEN OLD.is_canceled IS NOT NEW.is_canceled
  BEGIN INSERT INTO v_audit(tbl,id,old,new) VALUES('WC',NEW.id,OLD.is_canceled,NEW.is_canceled); END;
CREATE TRIGGER IF NOT EXISTS v_s_u AFTER UPDATE OF status ON stage_executions WHEN OLD.status IS NOT NEW.status
  BEGIN INSERT INTO v_audit(tbl,id,old,new) VALUES('S',NEW.id,OLD.status,NEW.status); END;
CREATE TRIGGER IF NOT EXISTS v_s_i AFTER INSERT ON stage_executions
  BEGIN INSERT INTO v_audit(tbl,id,old,new) VALUES('S',NEW.id,NULL,NEW.status); END;
CREATE TRIGGER IF NOT EXISTS v_t_u AFTER UPDATE OF status ON task_executions WHEN OLD.status IS NOT NEW.status
  BEGIN INSERT INTO v_audit(tbl,id,old,new) VALUES('T',NEW.id,OLD.status,NEW.status); END;
CREATE TRIGGER IF NOT EXISTS v_t_i AFTER INSERT ON task_executions
  BEGIN INSERT INTO v_audit(tbl,id,old,new) VALUES('T',NEW.id,NULL,NEW.status); END;
CREATE TRIGGER IF NOT EXISTS v_q_i AFTER INSERT ON queue_messages
  BEGIN INSERT INTO v_qlog(q,op,id,mtype,payload) VALUES('Q','+',NEW.id,NEW.message_type,NEW.payload); END;
CREATE TRIGGER IF NOT EXISTS v_q_d AFTER DELETE ON queue_messages
  BEGIN INSERT INTO v_qlog(q,op,id,mtype,payload) VALUES('Q','-',OLD.id,OLD.message_type,OLD.payload); END;
CREATE TRIGGER IF NOT EXISTS v_d_i AFTER INSERT ON queue_messages_dlq
  BEGIN INSERT INTO v_qlog(q,op,id,mtype,payload) VALUES('D','+',NEW.original_id,NEW.message_type,NEW.payload); END;
CREATE TRIGGER IF NOT EXISTS v_d_d AFTER DELETE ON queue_messages_dlq
  BEGIN INSERT INTO v_qlog(q,op,id,mtype,payload) VALUES('D','-',OLD.original_id,OLD.message_type,OLD.payload); END;
"""


def _exec_script(conn, script):
    buf = ""
    for line in script.splitlines():
        buf += line + "\n"
        if sqlite3.complete_statement(buf):
            conn.execute(buf)
            buf = ""


DEFAULT_WAIT_RETRIES = [2]


class World:
    """One worker-process-worth of real stabilize objects over one database.

    url ':memory:' (E1/E2/E4, thread-local connection of the calling thread)
    or a file path under /dev/shm (E3).
    """

    def __init__(self, url="sqlite:///:memory:", *, events=False, monitors=True):
        self.url = url
        self.events = events
        self.monitors = monitors
        self.ledger = []  # appended by VTask.execute
        self.behaviours = {}  # (stage name, task name) -> script dict
        self.task_names = set()
        self.exec_counts = {}  # (stage name, task name) -> executions in the current arming
        self.extra_tasks = {}  # implementing_class -> Task instance/class
        self.proc_config = dict(enable_lock_heartbeat=False, dlq_check_interval_seconds=0.0)
        self.max_attempts = 10
        self.event_store = None
        self.bus_log = []
        self.time_rank = False  # put the relative order of stage end times into the state identity (C02's data job)
        install_logical_clock()
        self.reactor = False  # C13: also subscribe a subscriber that records an event in reaction to stage completions
        self.handler_calls = []
        self.store = self.queue = self.processor = self.registry = None
        self.pristine = None
        self.dedup_capacity = 64
        self.wait_retries = DEFAULT_WAIT_RETRIES[0]  # max_stage_wait_retries (240 x 15 s = 1 h in production)
        self._engine_active = False
        self.dangling_txn = False

    # ---- database -----------------------------------------------------
    @property
    def conn(self):
        return _sconn.get_connection_manager().get_sqlite_connection(self.url)

    def create_schema(self):
        conn = self.conn
        SqliteWorkflowStore(self.url, create_tables=True)
        SqliteQueue(self.url)._create_table()
        if self.events:
            from stabilize.events.store.sqlite import SqliteEventStore

            SqliteEventStore(self.url, create_tables=True)
        if self.monitors:
            _exec_script(conn, MONITOR_DDL)
        conn.commit()
        # the ':memory:' database is per thread and shared by every World of the process: whatever an earlier job left
        # behind must not become part of the pristine image
        for (t,) in conn.execute("SELECT name FROM sqlite_master WHERE type='table' AND name NOT LIKE 'sqlite_%'").fetchall():
            conn.execute(f'DELETE FROM "{t}"')
        conn.execute("DELETE FROM sqlite_sequence") if conn.execute(
            "SELECT 1 FROM sqlite_master WHERE name='sqlite_sequence'").fetchone() else None
        conn.commit()
        self.pristine = conn.serialize()

    def image(self):
        c = self.conn
        if c.in_transaction:
            raise RuntimeError("harness: snapshot inside an open transaction")
        return c.serialize()

    def load(self, image):
        c = self.conn
        if c.in_transaction:
            c.rollback()
        c.deserialize(image)

    # ---- a fresh worker process --------------------------------------
    def incarnate(self, *, trust_negative=False, hydrate=True, foreign_first=False):
        """Model a freshly started worker: every in-memory singleton dropped.
        foreign_first: the process also serves another database whose processor was constructed first and has
        already hydrated the (process-wide) filter with ITS processed ids."""
        RunTaskHandler._executing_tasks.clear()
        reset_cancellation_state()
        try:
            from stabilize.finalizers import get_finalizer_registry

            reg = get_finalizer_registry()
            if hasattr(reg, "clear"):
                reg.clear()
        except Exception:
            pass
        _dedup._deduplicator = RecordingDedup(expected_items=self.dedup_capacity)
        if foreign_first:
            _dedup._deduplicator.hydrate(["900001", "900002"])
        import dataclasses

        import stabilize.resilience.config as _rcfg

        _rcfg._default_handler_config = dataclasses.replace(
            _rcfg.HandlerConfig.from_env(), max_stage_wait_retries=self.wait_retries
        )
        self.store = SqliteWorkflowStore(self.url, create_tables=False)
        self.queue = SqliteQueue(self.url, max_attempts=self.max_attempts)
        self.registry = TaskRegistry()
        from .tasks import register_tasks

        register_tasks(self)
        self._configure_events()
        cfg = QueueProcessorConfig(dedup_trust_negative_cache=trust_negative, **self.proc_config)
        if not hydrate:
            cfg.enable_deduplication = True
        self.processor = QueueProcessor(
            self.queue,
            config=cfg,
            store=self.store,
            task_registry=self.registry,
            bulkhead_manager=bulkheads(),
            circuit_factory=FreshCircuitFactory(_RES_CONFIG),
        )
        self._wrap_handlers()
        self.orchestrator = Orchestrator(self.queue, self.store)
        return self

    def fresh_filter(self, ids=(), authoritative=False):
        """Re-materialise the in-memory dedup filter after a fork."""
        f = RecordingDedup(expected_items=self.dedup_capacity)
        for i in ids:
            f.mark_seen(i)
        f._authoritative = bool(authoritative)
        _dedup._deduplicator = f
        return f

    def _wrap_handlers(self):
        calls = self.handler_calls
        for mtype, h in list(self.processor._handlers.items()):
            orig = h.handle

            def wrapped(message, _orig=orig, _n=mtype.__name__):
                calls.append((_n, getattr(message, "message_id", None)))
                return _orig(message)

            h.handle = wrapped  # instance attribute shadows the method

    def _configure_events(self):
        from stabilize.events import reset_event_bus, reset_event_recorder

        reset_event_bus()
        reset_event_recorder()
        self.event_store = None
        if not self.events:
            return
        from stabilize.events import configure_event_sourcing, get_event_bus
        from stabilize.events.store.sqlite import SqliteEventStore

        self.event_store = SqliteEventStore(self.url, create_tables=False)
        configure_event_sourcing(self.event_store)
        bus = get_event_bus()
        log = self.bus_log

        def _sub(ev):
            log.append((ev.sequence, ev.event_type.value, ev.entity_id))

        try:
            bus.subscribe("v-harness", _sub)
        except TypeError:
            bus.subscribe(_sub)
        if getattr(self, "reactor", False):
            # a second, *reacting* synchronous subscriber: on every stage completion it records an event of its own
            # through the recorder (what an audit / notification hook does), outside any store transaction
            from stabilize.events import get_event_recorder
            from stabilize.events.base import EntityType, EventType

            def _react(ev):
                if ev.event_type != EventType.STAGE_COMPLETED:
                    return
                rec = get_event_recorder()
                if rec is not None:
                    rec.record_context_updated(EntityType.STAGE, ev.entity_id, ev.workflow_id,
                                               context={"reacted_to": ev.sequence}, source_handler="v-reactor")

            bus.subscribe("v-reactor", _react)

    # ---- time ---------------------------------------------------------
    def normalise_time(self):
        """Collapse wall-clock values to the two facts the engine reads:
        ready/delayed and locked/unlocked."""
        c = self.conn
        c.execute(
            "UPDATE queue_messages SET deliver_at = CASE WHEN datetime(deliver_at) <= datetime('now','utc') "
            "THEN ? ELSE ? END",
            (READY, LATER),
        )
        c.execute(
            "UPDATE queue_messages SET locked_until = CASE WHEN locked_until IS NULL THEN NULL "
            "WHEN datetime(locked_until) < datetime('now','utc') THEN NULL ELSE ? END",
            (LATER,),
        )
        c.commit()

    def advance(self):
        c = self.conn
        c.execute("UPDATE queue_messages SET deliver_at = ? WHERE deliver_at = ?", (READY, LATER))
        c.commit()

    def expire(self):
        c = self.conn
        c.execute("UPDATE queue_messages SET locked_until = NULL WHERE locked_until IS NOT NULL")
        c.commit()

    # ---- stepping -------------------------------------------------------
    def select(self, row_id):
        c = self.conn
        c.execute("UPDATE queue_messages SET deliver_at = ? WHERE id = ?", (EPOCH, row_id))
        c.commit()

    def deliver(self, row_id, die_at=None):
        """Run the real process_one() on the chosen row.

        die_at: None | 'poll' (worker dies right after claiming the row) | 'mark' (worker dies after the handler returned, before
        the processor's own processed mark) | 'ack' (dies before the ack).
        Returns (handled: bool, exception or None).
        """
        self.select(row_id)
        q, st = self.queue, self.store
        polled = []
        orig_poll = q.poll_one

        def poll_one():
            m = orig_poll()
            polled.append(m)
            if die_at == "poll" and m is not None:
                raise Die("after the claim, before the handler")
            return m

        q.poll_one = poll_one
        undo = []
        if die_at == "mark":
            orig = st.mark_message_processed

            def die_mark(*a, **k):
                raise Die("before processor mark")

            st.mark_message_processed = die_mark
            undo.append(lambda: setattr(st, "mark_message_processed", orig))
        if die_at in ("mark", "ack"):
            orig_ack = q.ack

            def die_ack(*a, **k):
                raise Die("before ack")

            q.ack = die_ack
            undo.append(lambda: setattr(q, "ack", orig_ack))
        exc = None
        try:
            self._engine_active = True
            self.processor.process_one()
        except Die:
            c = self.conn
            if c.in_transaction:
                c.rollback()
            RunTaskHandler._executing_tasks.clear()
        except Exception as e:  # real engine path: message was rescheduled
            exc = e
        finally:
            self._engine_active = False
            q.poll_one = orig_poll
            for u in undo:
                u()
        c = self.conn
        if c.in_transaction:
            # a handler left a transaction open (e.g. a failed non-transactional
            # store_stage): a real worker would carry it into its next commit.
            # Surface it instead of hiding it.
            self.dangling_txn = True
        m = polled[0] if polled else None
        if m is None and exc is not None:
            return None, exc  # the poll itself failed (injected fault): nothing was claimed
        if m is None or str(m.message_id) != str(row_id):
            raise RuntimeError(f"harness: chose row {row_id} but polled {getattr(m, 'message_id', None)}")
        return m, exc

    def run_recovery(self):
        self._engine_active = True
        try:
            return self.processor.run_recovery()
        finally:
            self._engine_active = False

    # ---- monitors -------------------------------------------------------
    def drain_audit(self):
        c = self.conn
        a = [tuple(r) for r in c.execute("SELECT seq,tbl,id,old,new FROM v_audit ORDER BY seq")]
        q = [tuple(r) for r in c.execute("SELECT seq,q,op,id,mtype,payload FROM v_qlog ORDER BY seq")]
        if a or q:
            c.execute("DELETE FROM v_audit")
            c.execute("DELETE FROM v_qlog")
            c.commit()
        return a, q


def pack(image: bytes) -> bytes:
    return zlib.compress(image, 1)


def unpack(blob: bytes) -> bytes:
    return zlib.decompress(blob)


def dumps(o) -> str:
    return json.dumps(o, sort_keys=True, default=str, separators=(",", ":"))


if __name__ == "__main__":  # smoke
    print(sys.version)
