"""E3 `ilv` - stateless exploration of statement-level interleavings of real threads
under a preemption bound (DESIGN.md section 3).

Every worker is a real threading.Thread running real engine code on its own
(thread-local) connection to a file database on /dev/shm.  Each execute() and
commit() of a managed thread is a scheduling point; a baton (one semaphore per
thread) lets exactly one managed thread run at a time.  SQLite lock waits are
modelled as blocking: busy_timeout is forced to 0 and "database is locked"
disables the thread until another thread has taken a step.
"""

from __future__ import annotations

import os
import threading
import time

from . import world as W
from .world import HOOKS, SLEEP_HOOK


class Divergence(RuntimeError):
    pass


class _T:
    __slots__ = ("idx", "thread", "go", "state", "blocked", "woken", "error", "result", "points", "fail_locked")

    def __init__(self, idx):
        self.idx = idx
        self.go = threading.Semaphore(0)
        self.state = "ready"  # ready | done
        self.blocked = False
        self.woken = False
        self.error = None
        self.result = None
        self.points = 0
        self.fail_locked = False


class Sched:
    def __init__(self):
        self.ts = []
        self.by_ident = {}
        self.ctrl = threading.Semaphore(0)
        self.trace = []
        self.after_commit = None  # fn(thread idx) evaluated by the controller after a commit step
        self.last_kind = None
        self.deadlocks = 0
        self.blocked_events = 0

    # ---- called from managed threads ---------------------------------
    def me(self):
        return self.by_ident.get(threading.get_ident())

    def point(self, kind=None):
        t = self.me()
        if t is None:
            return
        t.points += 1
        self.last_kind = kind
        self.ctrl.release()
        t.go.acquire()

    def locked(self, conn, sql):
        t = self.me()
        if t is None:
            return False
        if t.fail_locked:
            t.fail_locked = False
            return False  # deliver the lock error (everybody is blocked: SQLite's own deadlock answer)
        t.blocked, t.woken = True, False
        self.blocked_events += 1
        self.last_kind = "blocked"
        self.ctrl.release()
        t.go.acquire()
        t.blocked = False
        return True

    # ---- controller ---------------------------------------------------
    def run(self, scripts, prefix=(), max_points=5000):
        self.ts = [_T(i) for i in range(len(scripts))]
        self.by_ident = {}
        self.trace = []

        def body(t, fn):
            self.by_ident[threading.get_ident()] = t
            t.go.acquire()
            try:
                t.result = fn()
            except BaseException as e:  # noqa: BLE001
                t.error = e
            finally:
                try:
                    W._sconn.get_connection_manager().close_all()
                except Exception:
                    pass
                t.state = "done"
                self.last_kind = "done"
                self.ctrl.release()

        for t, fn in zip(self.ts, scripts):
            t.thread = threading.Thread(target=body, args=(t, fn), daemon=True)
            t.thread.start()
        HOOKS.pre_execute = lambda conn, sql, params: self.point("x")
        HOOKS.pre_commit = lambda conn: self.point("c")
        HOOKS.locked_retry = self.locked
        SLEEP_HOOK[0] = lambda: self.point("sleep")
        current = None
        try:
            while True:
                live = [t for t in self.ts if t.state != "done"]
                if not live:
                    break
                enabled = [t.idx for t in live if not t.blocked or t.woken]
                if not enabled:
                    # every live thread waits for a lock nobody will release: hand the error to one of them
                    self.deadlocks += 1
                    victim = live[0]
                    victim.fail_locked = True
                    victim.woken = True
                    enabled = [victim.idx]
                i = len(self.trace)
                if i >= max_points:
                    raise Divergence("execution exceeded max_points (unbounded spinning?)")
                if i < len(prefix):
                    chosen = prefix[i]
                    if chosen not in enabled:
                        raise Divergence(f"replay diverged at point {i}: thread {chosen} not enabled {enabled}")
                else:
                    chosen = current if current in enabled else enabled[0]
                self.trace.append((tuple(enabled), current, chosen))
                t = self.ts[chosen]
                t.go.release()
                if not self.ctrl.acquire(timeout=60):
                    raise Divergence(f"thread {chosen} did not reach a scheduling point within 60 s")
                if self.last_kind != "blocked":
                    # only real progress can release a lock: a failed retry wakes nobody
                    for o in self.ts:
                        if o is not t and o.blocked:
                            o.woken = True
                if self.last_kind == "c" and self.after_commit is not None:
                    pass
                current = chosen
        finally:
            HOOKS.pre_execute = HOOKS.pre_commit = HOOKS.locked_retry = None
            SLEEP_HOOK[0] = None
            for t in self.ts:
                if t.state != "done":
                    # unblock stragglers so that threads do not leak
                    for _ in range(10000):
                        t.go.release()
            for t in self.ts:
                t.thread.join(timeout=5)
        return self.trace


def preemptions(trace, upto=None):
    n = 0
    for (enabled, current, chosen) in trace[:upto]:
        if current is not None and current in enabled and chosen != current:
            n += 1
    return n


class IlvExplorer:
    """Iterative context bounding over Sched executions."""

    def __init__(self, make_execution, bound, *, max_executions=200000, time_cap=None, shard=None):
        self.shard = shard  # (k, n): this explorer owns every n-th subtree below the root execution
        self.make_execution = make_execution  # fn() -> (scripts, finish) ; finish(sched) -> list of violations
        self.bound = bound
        self.max_executions = max_executions
        self.time_cap = time_cap
        self.executions = 0
        self.points_total = 0
        self.violations = []
        self.capped = False
        self.outcomes = {}
        self.max_points = 0
        self.samples = []
        self.blocked_events = 0
        self.deadlocks = 0

    def run(self):
        t0 = time.time()
        stack = [((), 0)]  # (prefix, replication depth: >=0 means every shard runs this node; -1 = owned)
        child_no = 0
        while stack:
            if self.executions >= self.max_executions or (self.time_cap and time.time() - t0 > self.time_cap):
                self.capped = True
                break
            prefix, rep = stack.pop()
            scripts, finish = self.make_execution()
            sched = Sched()
            trace = sched.run(scripts, prefix)
            self.executions += 1
            self.points_total += len(trace)
            self.max_points = max(self.max_points, len(trace))
            self.blocked_events += sched.blocked_events
            self.deadlocks += sched.deadlocks
            choices = [c for (_e, _c, c) in trace]
            viols, outcome = finish(sched)
            mine = self.shard is None or rep < 0 or self.shard[0] == 0
            if not mine:
                # replicated node: checked and counted by shard 0 only
                self.executions -= 1
                self.points_total -= len(trace)
                viols = []
            else:
                self.outcomes[outcome] = self.outcomes.get(outcome, 0) + 1
                if len(self.samples) < 2:
                    self.samples.append(choices)
            for v in viols:
                v = dict(v)
                v["trace"] = choices
                if len(self.violations) < 30:
                    self.violations.append(v)
            pre = 0
            pre_counts = []
            for (enabled, current, chosen) in trace:
                pre_counts.append(pre)
                if current is not None and current in enabled and chosen != current:
                    pre += 1
            for i in range(len(prefix), len(trace)):
                enabled, current, chosen = trace[i]
                for alt in enabled:
                    if alt == chosen:
                        continue
                    step_cost = 1 if (current is not None and current in enabled and alt != current) else 0
                    cost = pre_counts[i] + step_cost
                    if cost > self.bound:
                        continue
                    child = tuple(choices[:i]) + (alt,)
                    if self.shard is None:
                        stack.append((child, -1))
                    elif rep >= 0 and rep < 3 and (cost == 0 or rep < 1):
                        # big subtree: every shard descends into it and splits ITS children
                        stack.append((child, rep + 1))
                    elif rep >= 0:
                        child_no += 1
                        if child_no % self.shard[1] == self.shard[0]:
                            stack.append((child, -1))
                    else:
                        stack.append((child, -1))
        self.wall = time.time() - t0
        return self

    def summary(self):
        return {"executions": self.executions, "points": self.points_total, "max_points": self.max_points,
                "bound": self.bound, "capped": self.capped, "distinct_outcomes": len(self.outcomes),
                "lock_waits": self.blocked_events, "lock_deadlocks": self.deadlocks,
                "wall_s": round(getattr(self, "wall", 0), 2)}


# ---------------------------------------------------------------------------
SHM = "/dev/shm"


CAS_LOST = [0]


def _count_cas():
    """Observe (not alter) optimistic-lock losses, so that 'nothing collided' is visible in the evidence."""
    from stabilize.errors import ConcurrencyError
    from stabilize.persistence.sqlite import transaction as T

    if getattr(T.AtomicTransaction, "_v_wrapped", False):
        return
    orig = T.AtomicTransaction.store_stage

    def store_stage(self, stage, expected_phase=None):
        try:
            return orig(self, stage, expected_phase=expected_phase)
        except ConcurrencyError:
            CAS_LOST[0] += 1
            raise

    T.AtomicTransaction.store_stage = store_stage
    T.AtomicTransaction._v_wrapped = True


class FileWorld:
    """Per-execution file database + real engine objects shared by the worker threads
    (the library's own ThreadPoolExecutor deployment: one processor, thread-local connections)."""

    _n = 0

    def __init__(self, template_bytes, behaviours, task_names, *, events=False):
        _count_cas()
        FileWorld._n += 1
        self.dir = scratch_dir()
        self.path = os.path.join(self.dir, f"x{FileWorld._n}.db")
        for suffix in ("-journal", "-wal", "-shm"):  # never inherit a stale hot journal
            try:
                os.remove(self.path + suffix)
            except FileNotFoundError:
                pass
        with open(self.path, "wb") as f:
            f.write(template_bytes)
        self.w = W.World(url=f"sqlite:///{self.path}", events=events)
        self.w.behaviours = dict(behaviours)
        self.w.task_names = set(task_names)
        self.w.incarnate()

    def image(self):
        c = self.w.conn
        return c.serialize()

    def close(self):
        try:
            W._sconn.get_connection_manager().close_sqlite_connection(self.w.url)
        except Exception:
            pass
        for suffix in ("", "-journal", "-wal", "-shm"):
            try:
                os.remove(self.path + suffix)
            except FileNotFoundError:
                pass


_SCRATCH = {}


def scratch_dir():
    """A directory that belongs to this process only (pids are recycled, so never derive it from the pid alone)."""
    import atexit
    import tempfile

    pid = os.getpid()
    if _SCRATCH.get("pid") != pid:
        _SCRATCH["pid"] = pid
        _SCRATCH["dir"] = tempfile.mkdtemp(prefix=f"verif-{pid}-", dir=SHM)
        atexit.register(cleanup_dir)
    return _SCRATCH["dir"]


def cleanup_dir():
    d = _SCRATCH.get("dir") if _SCRATCH.get("pid") == os.getpid() else None
    if d and os.path.isdir(d):
        for f in os.listdir(d):
            try:
                os.remove(os.path.join(d, f))
            except OSError:
                pass
        try:
            os.rmdir(d)
        except OSError:
            pass
        _SCRATCH.clear()


# ---------------------------------------------------------------------------
# helpers shared by the E3 checks
def prepare(workload, skip, *, events=False, setup_actions=(), max_steps=400, post_actions=(), budget=None,
            signal_spec=None, newest_first=False):
    """Drive the workload sequentially (FIFO) on the in-memory world, never delivering a
    message whose label matches one of the `skip` prefixes; returns the image in which only
    such messages remain, plus what is needed to rebuild the world."""
    from .e1 import Explorer
    from .e1jobs import world

    w = world(events=events)
    ex = Explorer(w, workload, [], dict(budget or {}), signal_spec=signal_spec)
    st = ex.initial()
    from .world import pack

    st.blob = pack(w.image())
    steps = 0

    def act(st, name):
        acts = dict(ex.enabled(st))
        tr, b = ex.apply(st, (name, acts[name]))
        st, _ = ex.fold(st, tr, b)
        st.blob = pack(w.image())
        return st

    def drive(st, steps):
        while steps < max_steps:
            acts = [a for a in ex.enabled(st) if a[0].startswith("d:") and not any(a[0][2:].startswith(s) for s in skip)]
            if not acts:
                break
            a = (max if newest_first else min)(acts, key=lambda a: a[1])
            tr, b = ex.apply(st, a)
            st, _ = ex.fold(st, tr, b)
            st.blob = pack(w.image())
            steps += 1
        return st, steps

    for name in setup_actions:
        st = act(st, name)
    st, steps = drive(st, steps)
    # operator actions (cancel / pause / signal ...) once only the skipped messages are left, then drive on
    for name in post_actions:
        st = act(st, name)
        st, steps = drive(st, steps)
    ex.restore(st)
    w.drain_audit()
    img = w.image()
    return {"image": img, "behaviours": dict(w.behaviours), "task_names": set(w.task_names), "view": st.view,
            "exec_counts": dict(w.exec_counts), "pending": [m["type"] for m in st.view.queue], "steps": steps}


class DrainMemo:
    """Sequential drain to quiescence of the state left by the concurrent section (memoised)."""

    def __init__(self, workload, events=False):
        from .e1 import Explorer
        from .e1jobs import world

        self.w = world(events=events)
        self.ex = Explorer(self.w, workload, [], {})
        self.wl = workload
        self.memo = {}
        self.hits = 0

    def drain(self, image, behaviours, task_names, exec_counts):
        from .e1 import State
        from .view import take_view
        from .world import pack

        w = self.w
        w.load(image)
        audit, qlog = w.drain_audit()
        w.normalise_time()
        w.expire()  # rows a worker left locked become deliverable again
        w.behaviours, w.task_names = dict(behaviours), set(task_names)
        w.exec_counts = dict(exec_counts)
        w.incarnate()
        view = take_view(w)
        key = view.key({"ec": sorted((list(k), n) for k, n in exec_counts.items())})
        if key in self.memo:
            self.hits += 1
            final_view, led, aud2, ql2 = self.memo[key]
            return view, audit, qlog, final_view, led, aud2, ql2
        mon = {"ec": {"|".join(k): n for k, n in exec_counts.items()}, "flt": None}
        st = State(pack(w.image()), view, mon, dict(self.ex.budget0), ())
        led, aud2, ql2 = [], [], []
        steps = 0
        while st.view.queue and steps < 500:
            acts = self.ex.enabled(st)
            deliver = [a for a in acts if a[0].startswith("d:")]
            a = min(deliver, key=lambda a: a[1]) if deliver else acts[0]
            tr, b = self.ex.apply(st, a)
            led.extend(tr.ledger)
            aud2.extend([(r[1], tr.post.labels.get(r[2], r[2]), r[3], r[4]) for r in tr.audit])
            ql2.extend(tr.qlog)
            st, _ = self.ex.fold(st, tr, b)
            st.blob = pack(w.image())
            steps += 1
        self.memo[key] = (st.view, led, aud2, ql2)
        return view, audit, qlog, st.view, led, aud2, ql2


def run_engine_scenario(workload, skip, scripts, oracle, bound, *, shard=None, setup_actions=(), time_cap=1500,
                        max_executions=60000, events=False, prep_hook=None, extra_scripts=None, fault=None,
                        post_actions=(), budget=None, prepared=None):
    """Generic E3 job: prepare sequentially, race `scripts` (process_one counts per worker),
    drain, evaluate oracle(ctx) -> list of violations.  ctx carries everything observed."""
    from .world import dumps

    if prepared is not None:
        prep = prepared
    elif post_actions or budget:
        prep = prepare(workload, skip, events=events, setup_actions=setup_actions, post_actions=post_actions, budget=budget)
    else:
        prep = prepare(workload, skip, events=events, setup_actions=setup_actions)
    if prep_hook:
        prep_hook(prep)
    memo = DrainMemo(workload, events=events)
    _v, _a, _q, ref_final, ref_led, ref_aud, ref_q = memo.drain(prep["image"], prep["behaviours"], prep["task_names"],
                                                                 prep["exec_counts"])
    ref = {"final": ref_final, "ledger": ref_led, "outcome": dumps(ref_final.outcome()),
           "admissible": sequential_outcomes(workload, prep, events=events)}
    stats = {"cas_lost": 0, "drain_memo_hits": 0, "handler_errors": 0}

    fired = []

    def make_execution():
        HOOKS.fault = None
        fw = FileWorld(prep["image"], prep["behaviours"], prep["task_names"], events=events)
        fw.w.exec_counts = dict(prep["exec_counts"])
        errors = []

        def script(n):
            if isinstance(n, (list, tuple)):
                return chosen_script(n)

            def run():
                for _ in range(n):
                    try:
                        fw.w.processor.process_one()
                    except Exception as e:
                        errors.append(type(e).__name__)
            return run

        def chosen_script(wanted):
            """Deliver, in this order, the pending message whose 'Type:stage' label starts with each entry
            (the queue does not promise an order between messages of different stages)."""
            ids = {lab: sid for sid, lab in prep["view"].labels.items()}

            def run():
                import json as _json

                from .world import EPOCH

                for want in wanted:
                    mtype, _, slab = want.partition(":")
                    c = fw.w.conn
                    row = None
                    for r in c.execute("SELECT id, payload FROM queue_messages WHERE message_type = ? ORDER BY id", (mtype,)).fetchall():
                        if not slab or _json.loads(r["payload"]).get("stage_id") == ids.get(slab):
                            row = r
                            break
                    if row is None:
                        continue
                    c.execute("UPDATE queue_messages SET deliver_at = ? WHERE id = ?", (EPOCH, row["id"]))
                    c.commit()
                    try:
                        fw.w.processor.process_one()
                    except Exception as e:
                        errors.append(type(e).__name__)
            return run

        def finish(sched):
            img = fw.image()
            led1 = list(fw.w.ledger)
            ec = dict(fw.w.exec_counts)
            fw.close()
            view, audit, qlog, final, led2, aud2, ql2 = memo.drain(img, prep["behaviours"], prep["task_names"], ec)
            lab = view.labels
            aud1 = [(r[1], lab.get(r[2], r[2]), r[3], r[4]) for r in audit]
            ctx = {"view_after_race": view, "final": final, "ledger": led1 + led2, "ledger_race": led1,
                   "audit": aud1 + list(aud2), "audit_race": aud1, "qlog": list(qlog) + list(ql2), "labels": lab,
                   "errors": errors, "ref": ref, "prep": prep}
            viols = oracle(ctx)
            stats["drain_memo_hits"] = memo.hits
            stats["cas_lost"] = CAS_LOST[0]
            stats["handler_errors"] += len(errors)
            return viols, dumps(final.outcome()) + "|" + ",".join(sorted(errors))

        def extra(kind):
            def run():
                try:
                    if kind == "retention":
                        fw.w.store.cleanup_completed_stage_claims()
                        fw.w.store.cleanup_old_processed_messages(max_age_hours=0.0)
                    elif kind == "recovery":
                        fw.w.processor.run_recovery()
                except Exception as e:
                    errors.append("extra:" + type(e).__name__)
            return run

        if fault is not None:
            # one-shot injected "database is locked" before the k-th write-path statement of worker `fault[0]`
            import sqlite3 as _sq
            import threading as _th

            state = {"n": 0, "done": False, "ident": None}
            target_idx, k = fault
            scripts_built = [script(n) for n in scripts]
            orig = scripts_built[target_idx]

            def wrapped():
                state["ident"] = _th.get_ident()
                return orig()

            scripts_built[target_idx] = wrapped

            def inject(conn, sql):
                if state["done"] or _th.get_ident() != state["ident"]:
                    return
                if state["n"] == k:
                    state["done"] = True
                    raise _sq.OperationalError("database is locked")
                state["n"] += 1

            HOOKS.fault = inject
            fired.append(state)
            return scripts_built + [extra(x) for x in (extra_scripts or [])], finish
        return [script(n) for n in scripts] + [extra(k) for k in (extra_scripts or [])], finish

    try:
        ex = IlvExplorer(make_execution, bound, max_executions=max_executions, time_cap=time_cap,
                         shard=tuple(shard) if shard else None).run()
    finally:
        HOOKS.fault = None
    cleanup_dir()
    s = ex.summary()
    stats["faults_fired"] = sum(1 for f in fired if f["done"])
    s["stats"] = stats
    s["pending_at_start"] = prep["pending"]
    s["outcome_classes"] = {k[-70:]: n for k, n in list(ex.outcomes.items())[:6]}
    s["_violations"] = ex.violations
    s["samples"] = ex.samples[:1]
    return s


def aggregate_e3(results, assumptions=None, extra=None):
    good = [r for r in results if "harness_error" not in r]
    # all-pairs jobs are enumerated per step of the baseline run; steps with fewer than two ready messages are empty
    empty_pair_steps = sum(1 for r in good if r.get("pairs") == 0 and not r.get("executions"))
    pairs_raced = sum(r.get("pairs", 0) for r in good)
    good = [r for r in good if not (r.get("pairs") == 0 and not r.get("executions"))]
    execs = sum(r.get("executions", 0) for r in good)
    pts = sum(r.get("points", 0) for r in good)
    cov = {
        "states": max(pts, 1), "transitions": max(pts, 1), "traces_validated_against_impl": execs,
        "samples": [{"job": r["job"], "schedule(thread index per scheduling point)": (r.get("samples") or [[]])[0][:80]}
                    for r in good[:3]] or [{"note": "no sample"}],
        "exhaustive": not any(r.get("capped") for r in good),
        "executions": execs, "scheduling_points": pts,
        "rule": "one execution = one complete interleaving of real worker threads at execute()/commit() granularity, enumerated by "
                "iterative context bounding (all schedules with at most `bound` preemptions); stateless exploration: states/transitions "
                "count scheduling points executed on the real code",
        "per_job": [{k: r.get(k) for k in ("job", "executions", "points", "max_points", "bound", "capped", "distinct_outcomes",
                                           "lock_waits", "lock_deadlocks", "wall_s", "stats", "pending_at_start",
                                           "outcome_classes", "pairs")} for r in good],
        "headline": {"jobs": len(good), "executions": execs, "capped": sum(1 for r in good if r.get("capped"))},
    }
    if pairs_raced or empty_pair_steps:
        cov["message_pairs_raced"] = pairs_raced
        cov["baseline_steps_without_two_ready_messages"] = empty_pair_steps
    if extra:
        cov.update(extra)
    return {
        "level": "model_checking",
        "coverage": cov,
        "assumptions": assumptions or [
            "preemption only at SQL statements and commits of managed threads (GIL: no finer shared-memory races relevant to the property)",
            "threads-of-one-process model: shared processor objects, thread-local connections, rollback-journal mode",
            "SQLite busy wait modelled as blocking (busy_timeout=0, retry after another thread made progress); the 30 s timeout is not modelled",
            "after the concurrent section the queue is drained sequentially (FIFO)"],
    }


def sequential_outcomes(workload, prep, events=False):
    """Outcomes of every SEQUENTIAL (message-granularity) order from the prepared state: what a
    linearizable concurrent execution may produce."""
    import collections

    from .e1 import Explorer, State
    from .e1jobs import world
    from .view import take_view
    from .world import dumps, pack

    w = world(events=events)
    ex = Explorer(w, workload, [], {})
    w.load(prep["image"])
    w.behaviours, w.task_names = dict(prep["behaviours"]), set(prep["task_names"])
    w.exec_counts = dict(prep["exec_counts"])
    w.incarnate()
    w.drain_audit()
    w.normalise_time()
    view = take_view(w)
    mon = {"ec": {"|".join(k): n for k, n in w.exec_counts.items()}, "flt": None}
    init = State(pack(w.image()), view, mon, dict(ex.budget0), ())
    seen = {ex.key(init)}
    frontier = collections.deque([init])
    outs = set()
    n = 0
    while frontier and n < 20000:
        st = frontier.popleft()
        if not st.view.queue:
            outs.add(dumps(st.view.outcome()))
            continue
        for a in ex.enabled(st):
            tr, b = ex.apply(st, a)
            ns, _ = ex.fold(st, tr, b)
            k = ex.key(ns)
            if k in seen:
                continue
            seen.add(k)
            ns.blob = pack(w.image())
            frontier.append(ns)
            n += 1
    return outs
