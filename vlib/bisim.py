"""Abstraction audit (DESIGN.md 2.4): every canonical key is expanded the first
TWO times it is reached (by different histories) and the successor key sets are
compared - a bisimulation check of the canonical key.  A mismatch is a harness
error (the abstraction would hide or invent behaviours), never a violation."""

from __future__ import annotations

import collections

from .e1jobs import result_from
from .world import pack


def audit(ex, job, limit=6000):
    init = ex.initial()
    init.blob = pack(ex.w.image())
    succ, first_trace = {}, {}
    reached = collections.Counter()
    frontier = collections.deque([init])
    reached[ex.key(init)] = 1
    expanded = 0
    mismatches = []
    while frontier and expanded < limit:
        st = frontier.popleft()
        k = ex.key(st)
        out = set()
        nexts = []
        for a in ex.enabled(st):
            tr, b = ex.apply(st, a)
            ns, _viols = ex.fold(st, tr, b)
            ns.blob = pack(ex.w.image())
            out.add((a[0], ex.key(ns)))
            nexts.append(ns)
            ex.transitions += 1
        expanded += 1
        if k in succ:
            ex.bisim_checked += 1
            if succ[k] != out:
                mismatches.append({"trace": list(st.trace), "first": first_trace[k],
                                   "diff": sorted(x[0] for x in succ[k] ^ out)[:6]})
            continue
        succ[k] = out
        first_trace[k] = list(st.trace)
        for ns in nexts:
            kk = ex.key(ns)
            if reached[kk] < 2:
                reached[kk] += 1
                frontier.append(ns)
    ex.states = len(succ)
    ex.capped = bool(frontier)
    res = result_from(ex, "e1")
    res["bisim_revisits_compared"] = ex.bisim_checked
    res["job_spec"] = job
    if mismatches:
        raise RuntimeError(
            "harness: abstraction audit failed (canonical key merges states with different futures): "
            + str(mismatches[:2])
        )
    return res
