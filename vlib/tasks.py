"""Scripted harness task + execution ledger (DESIGN.md 2.3).

Behaviour scripts are keyed by (stage name, task name).  Two rules keep a
re-executed step from changing the run (so crash / redelivery oracles can
demand equality): control decisions read a durable marker where the engine
offers one, and published outputs are pure functions of what the stage was
handed (never an execution ordinal).
"""

from __future__ import annotations

import hashlib
import json

from stabilize import Task, TaskResult
from stabilize.errors import TransientError

CURRENT = [None]  # the World whose ledger receives entries


def digest(obj) -> str:
    return hashlib.blake2b(
        json.dumps(obj, sort_keys=True, default=str, separators=(",", ":")).encode(), digest_size=6
    ).hexdigest()


# context keys the harness treats as volatile bookkeeping, not "data seen"
_BOOKKEEPING = ("_jump_history",)


def seen_view(ctx: dict) -> dict:
    return {k: v for k, v in ctx.items() if k not in _BOOKKEEPING}


class VTask(Task):
    """A task whose behaviour is looked up in world.behaviours."""

    def __init__(self, task_name: str):
        self.task_name = task_name

    def execute(self, stage):
        w = CURRENT[0]
        sname = stage.name or stage.ref_id
        key = (sname, self.task_name)
        script = w.behaviours.get(key) or {"kind": "ok"}
        ctx = dict(stage.context)
        prior = w.exec_counts.get(key, 0)
        w.exec_counts[key] = prior + 1
        from .world import HOOKS

        entry = {
            "n": len(w.ledger),
            "stage": sname,
            "task": self.task_name,
            "nth": prior,
            "ctx": seen_view(ctx),
            "commit": HOOKS.commits,
            "step": None,
        }
        w.ledger.append(entry)
        res = self._run(script, stage, ctx, sname, prior, entry)
        entry["out"] = dict(getattr(res, "outputs", None) or {})  # what this execution published
        return res

    # ------------------------------------------------------------------
    def _outputs(self, script, stage, ctx, sname):
        out = script.get("out")
        if out is None:
            return {}
        res = {}
        for k, spec in out.items():
            res[k] = _value(spec, stage, ctx, sname)
        return res

    def _run(self, script, stage, ctx, sname, prior, entry):
        kind = script.get("kind", "ok")
        if kind == "ok":
            entry["step"] = "ok"
            return TaskResult.success(outputs=self._outputs(script, stage, ctx, sname))
        if kind == "terminal":
            entry["step"] = "terminal"
            return TaskResult.terminal("scripted terminal failure")
        if kind == "raise":
            entry["step"] = "raise"
            raise ValueError("scripted permanent exception")
        if kind == "failed_continue":
            entry["step"] = "failed_continue"
            return TaskResult.failed_continue(error="scripted", outputs=self._outputs(script, stage, ctx, sname))
        if kind == "poll":
            k = script["k"]
            n = ctx.get("_pc", 0)
            if n < k:
                entry["step"] = f"running{n}"
                return TaskResult.running(context={"_pc": n + 1})
            entry["step"] = "ok"
            return TaskResult.success(outputs=self._outputs(script, stage, ctx, sname))
        if kind == "transient":
            k = script["k"]
            if script.get("ctx", True):
                n = ctx.get("_tc", 0)
                if n < k:
                    entry["step"] = f"transient{n}"
                    raise TransientError("scripted transient", context_update={"_tc": n + 1})
            else:
                n = prior
                if n < k:
                    entry["step"] = f"transient{n}"
                    raise TransientError("scripted transient")
            entry["step"] = "ok"
            return TaskResult.success(outputs=self._outputs(script, stage, ctx, sname))
        if kind == "jump":
            times = script["times"]
            n = ctx.get("_jump_count", 0)
            if n < times:
                entry["step"] = f"jump{n}"
                outs = self._outputs(script, stage, ctx, sname)
                if script.get("jump_out"):  # published only by an iteration that is then abandoned by the jump
                    outs.update(self._outputs({"out": script["jump_out"]}, stage, ctx, sname))
                tgt = script["target"]
                if isinstance(tgt, (list, tuple)):  # the n-th jump goes to the n-th target
                    tgt = tgt[min(n, len(tgt) - 1)]
                return TaskResult.jump_to(tgt, outputs=outs)
            entry["step"] = "ok"
            return TaskResult.success(outputs=self._outputs(script, stage, ctx, sname))
        if kind == "suspend":
            if ctx.get("_signal_name"):
                entry["step"] = "resumed"
                return TaskResult.success(
                    outputs={"sig": ctx.get("_signal_name"), "sigdata": ctx.get("_signal_data")}
                )
            entry["step"] = "suspend"
            return TaskResult.suspend()
        if kind == "suspend_n":
            # needs script["need"] signals: consumes the delivered one, forgets it, suspends again
            received = list(ctx.get("received", []))
            if ctx.get("_signal_name"):
                received.append(ctx.get("_signal_data"))
                entry["step"] = "resumed"
            else:
                entry["step"] = "suspend"
            if len(received) >= script["need"]:
                return TaskResult.success(outputs={"received": received})
            return TaskResult.suspend(context={"received": received, "_signal_name": None, "_signal_data": None})
        raise RuntimeError(f"harness: unknown script kind {kind}")


def _value(spec, stage, ctx, sname):
    """Output value specs:
    ("const", v) | ("name",) -> stage name | ("iter",) -> _jump_count or 0 |
    ("wrap", key) -> f"{sname}({ctx.get(key)})" | ("list", v) -> [v] | ("ctx", key) -> ctx.get(key)
    """
    t = spec[0]
    if t == "const":
        return spec[1]
    if t == "name":
        return sname
    if t == "iter":
        return ctx.get("_jump_count", 0)
    if t == "wrap":
        return f"{sname}({ctx.get(spec[1])})"
    if t == "list":
        return [spec[1]]
    if t == "ctx":
        return ctx.get(spec[1])
    raise RuntimeError(f"harness: bad value spec {spec}")


def register_tasks(world):
    reg = world.registry
    names = {t for (_s, t) in world.behaviours} | set(world.task_names)
    for n in sorted(names):
        reg.register(f"v_{n}", VTask(n))
    for cls_name, impl in world.extra_tasks.items():
        reg.register(cls_name, impl)
    CURRENT[0] = world
