"""E2 `crash` - every durable commit of a run is a crash point (DESIGN.md section 3).

A baseline run is driven through the real engine with a commit hook on the
real connection; the database image right after every commit is a crash state
(SQLite's atomic commit is trusted: a crash inside a transaction is the image
at the previous commit).  From every image a fresh worker is incarnated,
locks lapse, the recovery sweep runs and the queue is drained.
"""

from __future__ import annotations

import collections

from .e1 import Explorer, State
from .view import msg_label, take_view
from .world import HOOKS, pack, unpack


class Snap:
    __slots__ = ("blob", "ledger_len", "ec", "step", "action", "k", "inflight", "bus_len", "bus_pre", "tag", "tlen")


class CrashEngine:
    def __init__(self, world, workload, *, schedule="fifo", monitors=(), events=False, budget=None, setup=None,
                 signal_spec=None):
        self.w = world
        self.wl = workload
        self.schedule = schedule
        self.ex = Explorer(world, workload, list(monitors), budget or {}, setup=setup, signal_spec=signal_spec)
        self.snaps = []
        self.cum_ledger = []
        self.audit_rows = 0

    # -- stepping with the commit hook on ---------------------------------
    def _hooked_apply(self, st, action, snaps, step_no, base_ledger_len):
        w = self.w
        counter = [0]

        def on_commit(conn):
            if not getattr(w, "_engine_active", False):
                return
            s = Snap()
            s.blob = pack(conn.serialize())
            s.ledger_len = base_ledger_len + len(w.ledger)
            s.ec = dict(w.exec_counts)
            s.step, s.action, s.k = step_no, action[0], counter[0]
            s.tlen = len(st.trace)  # actions of the run that precede the one in flight
            s.inflight = action[0]
            s.bus_len = len(w.bus_log)
            s.bus_pre = pre[0]
            counter[0] += 1
            snaps.append(s)

        pre = [len(w.bus_log)]

        def pre_commit(conn):  # what subscribers had been told at the instant just before this commit
            pre[0] = len(w.bus_log)

        HOOKS.on_commit = on_commit
        HOOKS.pre_commit = pre_commit
        try:
            return self.ex.apply(st, action)
        finally:
            HOOKS.on_commit = None
            HOOKS.pre_commit = None

    def pick(self, st, acts, step_no):
        deliver = [a for a in acts if a[0].startswith("d:")]
        if not deliver:
            return acts[0]
        if self.schedule == "fifo":
            return min(deliver, key=lambda a: a[1])
        if self.schedule == "lifo":
            return max(deliver, key=lambda a: a[1])
        srt = sorted(deliver, key=lambda a: a[1])
        return srt[step_no % len(srt)]

    def drive(self, st, *, record, base_ledger_len=0, max_steps=400, pre_actions=()):
        """Drain from state st to quiescence under the schedule.  Returns
        (final state, ledger entries, snaps)."""
        snaps, ledger = [], []
        step_no = 0
        pending = list(pre_actions)
        while step_no < max_steps:
            if pending:
                name = pending.pop(0)
                acts = dict(self.ex.enabled(st))
                if name not in acts:
                    if name in ("expire", "sweep", "advance"):
                        if name == "sweep":
                            acts[name] = None
                        else:
                            continue
                    else:
                        raise RuntimeError(f"harness: pre-action {name} not enabled")
                action = (name, acts[name])
            else:
                if not st.view.queue:
                    break
                acts = self.ex.enabled(st)
                if not acts:
                    break
                action = self.pick(st, acts, step_no)
            if record:
                tr, b = self._hooked_apply(st, action, snaps, step_no, base_ledger_len + len(ledger))
            else:
                tr, b = self.ex.apply(st, action)
            ledger.extend(tr.ledger)
            self.audit_rows += len(tr.audit)
            ns, viols = self.ex.fold(st, tr, b)
            ns.blob = pack(self.w.image())
            for v in viols:
                v["trace"] = list(ns.trace)
                self.mon_violations.append(v)
            st = ns
            step_no += 1
        return st, ledger, snaps

    mon_violations = []
    budget_at = None

    def baseline(self, record_start=False):
        self.mon_violations = []
        start_snaps = []
        if record_start:
            w = self.w
            self.ex.record_start = True

            def on_commit(conn):
                if not getattr(w, "_engine_active", False):
                    return
                s = Snap()
                s.blob = pack(conn.serialize())
                s.ledger_len, s.ec, s.step, s.action, s.k = 0, {}, -1, "start:Orchestrator.start", len(start_snaps)
                s.inflight, s.bus_len = s.action, len(w.bus_log)
                s.bus_pre = s.bus_len
                s.tlen = 0
                start_snaps.append(s)

            HOOKS.on_commit = on_commit
        try:
            st = self.ex.initial()
        finally:
            HOOKS.on_commit = None
            self.ex.record_start = False
        self.start_snaps = start_snaps
        # engine-activity flag: only commits made by engine code are crash points
        self._install_activity_flag()
        st, ledger, snaps = self.drive(st, record=True)
        snaps = start_snaps + snaps
        self.base_final, self.base_ledger, self.snaps = st, ledger, snaps
        return st, ledger, snaps

    def _install_activity_flag(self):
        pass

    # -- crash + restart ---------------------------------------------------
    def state_at(self, snap, ec=None):
        w = self.w
        w.load(unpack(snap.blob))
        w.drain_audit()
        w.normalise_time()
        w.exec_counts = dict(ec if ec is not None else snap.ec)
        w.incarnate()
        view = take_view(w)
        mon = {"ec": {"|".join(k): n for k, n in w.exec_counts.items()}, "flt": None}
        for m in self.ex.monitors:
            mon[m.name] = m.init(self.ex)
        budget = dict(self.ex.budget0)
        budget["sweep"] = 2
        if self.budget_at is not None:
            budget.update(self.budget_at(snap) or {})  # e.g. an operator action already contained in this image
        return State(pack(w.image()), view, mon, budget, ("crash@%d.%d:%s" % (snap.step, snap.k, snap.action),))

    def recover(self, snap, order, ec=None, record=False, sweeps=1):
        """order 'restart-first': restart, sweep, drain, expire, drain.
        order 'expire-first': expire, restart, sweep, drain."""
        st = self.state_at(snap, ec)
        self.last_crash_queue = [msg_label(st.view, m) for m in st.view.queue]
        sw = ["sweep"] * sweeps
        if order == "restart-first":
            st, led1, sn1 = self.drive(st, record=record, pre_actions=sw)
            st, led2, sn2 = self.drive(st, record=record, pre_actions=["expire"], base_ledger_len=len(led1))
            return st, led1 + led2, sn1 + sn2
        st, led, sn = self.drive(st, record=record, pre_actions=["expire"] + sw)
        return st, led, sn


def ledger_counts(ledger):
    c = collections.Counter()
    for e in ledger:
        c[(e["stage"], e["task"])] += 1
    return c
