#!/venv/bin/python
"""Plain reproductions of the KNOWN findings (known_findings.json) against the real engine,
without any of the /verif exploration machinery: only stabilize's public objects and one helper
that chooses which queued message is delivered next (by rewriting its deliver_at).

    /venv/bin/python findings/repro_known_findings.py          # runs all, prints REPRODUCED / not reproduced

Exit status 0 = every known finding still reproduces (they are recorded, not repaired);
a finding that stops reproducing should be moved to `fixed` in known_findings.json.
"""

from __future__ import annotations

import json
import logging
import os
import sys
import tempfile

logging.disable(logging.CRITICAL)

from stabilize import (  # noqa: E402
    Orchestrator, QueueProcessor, SqliteQueue, SqliteWorkflowStore, StageExecution, Task, TaskExecution, TaskRegistry,
    TaskResult, Workflow,
)
from stabilize.models.stage import JoinType, SplitType  # noqa: E402
from stabilize.persistence.connection import ConnectionManager, SingletonMeta  # noqa: E402
from stabilize.queue.processor.config import QueueProcessorConfig  # noqa: E402

SEEN = {}


class Ok(Task):
    def execute(self, stage):
        SEEN.setdefault(stage.ref_id, []).append(dict(stage.context))
        return TaskResult.success(outputs={"o_" + stage.ref_id: stage.ref_id, "it": stage.context.get("_jump_count", 0)}
                                  if stage.ref_id == "A" else {"o_" + stage.ref_id: stage.ref_id})


class JumpOnce(Task):
    def execute(self, stage):
        SEEN.setdefault(stage.ref_id, []).append(dict(stage.context))
        if stage.context.get("_jump_count", 0) < stage.context.get("want_jumps", 1):
            return TaskResult.jump_to("A")
        return TaskResult.success()


class Env:
    def __init__(self):
        SingletonMeta.reset(ConnectionManager)
        self.dir = tempfile.mkdtemp(prefix="verif-repro-", dir="/dev/shm")
        self.url = f"sqlite:///{self.dir}/db.sqlite"
        self.store = SqliteWorkflowStore(self.url, create_tables=True)
        self.queue = SqliteQueue(self.url)
        self.queue._create_table()
        reg = TaskRegistry()
        reg.register("ok", Ok)
        reg.register("jump", JumpOnce)
        self.proc = QueueProcessor(self.queue, config=QueueProcessorConfig(enable_lock_heartbeat=False), store=self.store,
                                   task_registry=reg)
        self.orch = Orchestrator(self.queue, self.store)
        SEEN.clear()

    def conn(self):
        return self.store._get_connection()

    def pending(self):
        out = []
        for r in self.conn().execute("SELECT id, message_type, payload FROM queue_messages ORDER BY id"):
            p = json.loads(r["payload"])
            out.append((r["id"], r["message_type"], p))
        return out

    def deliver(self, pred):
        """Deliver the first pending message for which pred(type, payload) is true."""
        c = self.conn()
        c.execute("UPDATE queue_messages SET deliver_at = '2000-01-01T00:00:00+00:00', locked_until = NULL")
        for (i, t, p) in self.pending():
            if pred(t, p):
                c.execute("UPDATE queue_messages SET deliver_at = '1970-01-01T00:00:00+00:00' WHERE id = ?", (i,))
                c.commit()
                return self.proc.process_one()
        raise AssertionError("no such pending message: " + str([(t) for _, t, _ in self.pending()]))

    def fifo(self, until=None, limit=200):
        n = 0
        while self.pending() and n < limit:
            if until and until(self):
                return
            self.conn().execute("UPDATE queue_messages SET deliver_at = '2000-01-01T00:00:00+00:00', locked_until = NULL")
            self.conn().commit()
            try:
                self.proc.process_one()
            except Exception:
                pass
            n += 1

    def close(self):
        SingletonMeta.reset(ConnectionManager)
        for f in os.listdir(self.dir):
            os.remove(os.path.join(self.dir, f))
        os.rmdir(self.dir)


def stage(ref, deps=(), impl="ok", **kw):
    return StageExecution(ref_id=ref, name=ref, type="t", requisite_stage_ref_ids=set(deps),
                          tasks=[TaskExecution.create(name="t", implementing_class=impl, stage_start=True, stage_end=True)], **kw)


def is_(t0, stage_id=None):
    return lambda t, p: t == t0 and (stage_id is None or p.get("stage_id") == stage_id)


# ---------------------------------------------------------------------------
def stale_complete_task_redirect_wedges_the_loop():
    """C02 / C05 / C15: CompleteTask(REDIRECT) of iteration 1 delivered after the jump restarted the task."""
    e = Env()
    a = stage("A", impl="jump")
    wf = Workflow.create(application="v", name="loop", stages=[a])
    e.orch.start(wf)
    for t in ("StartWorkflow", "StartStage", "StartTask", "RunTask"):
        e.deliver(is_(t))
    # now pending: JumpToStage and CompleteTask(REDIRECT); deliver the jump first, restart A ...
    e.deliver(is_("JumpToStage"))
    e.deliver(is_("StartStage"))
    e.deliver(is_("StartTask"))
    # ... and only now the stale CompleteTask(REDIRECT) of the first iteration
    e.deliver(is_("CompleteTask"))
    e.fifo()
    got = e.store.retrieve(wf.id)
    res = got.status.name == "RUNNING" and got.stages[0].tasks[0].status.name == "REDIRECT" and not e.pending()
    e.close()
    return res, f"workflow {got.status.name}, task {got.stages[0].tasks[0].status.name}, queue empty"


def crash_between_claim_and_plan_loses_upstream_outputs():
    """C01: die right after the StartStage claim commit; restart + recovery."""
    e = Env()
    wf = Workflow.create(application="v", name="chain", stages=[stage("A"), stage("B", ("A",))])
    e.orch.start(wf)
    b_id = wf.stages[1].id
    e.fifo(until=lambda env: any(t == "StartStage" and p["stage_id"] == b_id for _, t, p in env.pending()))

    class Die(BaseException):
        pass

    from stabilize.handlers.start_stage.handler import StartStageHandler

    orig = StartStageHandler._plan_stage

    def die(self, stage):
        raise Die()

    StartStageHandler._plan_stage = die  # the claim commit has happened when _plan_stage is entered
    try:
        try:
            e.deliver(is_("StartStage", b_id))
        except Die:
            pass
    finally:
        StartStageHandler._plan_stage = orig
    c = e.conn()
    if c.in_transaction:
        c.rollback()
    # fresh worker: locks lapse, recovery sweep, drain
    SEEN.clear()
    e.proc.run_recovery()
    e.fifo()
    got = e.store.retrieve(wf.id)
    saw = SEEN.get("B", [{}])[0]
    res = got.status.name == "SUCCEEDED" and "o_A" not in saw
    e.close()
    return res, f"workflow {got.status.name}; B's task saw {saw} (uninterrupted run: o_A present)"


def recovery_revives_branch_deselected_by_or_split():
    """C01 / C10: a recovery sweep while SkipStage(C) is still queued starts C."""
    e = Env()
    a = StageExecution(ref_id="A", name="A", type="t", split_type=SplitType.OR,
                       split_conditions={"B": "go_b == True", "C": "go_c == True"}, context={"go_b": True, "go_c": False},
                       tasks=[TaskExecution.create(name="t", implementing_class="ok", stage_start=True, stage_end=True)])
    wf = Workflow.create(application="v", name="or", stages=[a, stage("B", ("A",)), stage("C", ("A",))])
    e.orch.start(wf)
    c_id = wf.stages[2].id
    e.fifo(until=lambda env: any(t == "SkipStage" for _, t, _ in env.pending()))
    e.proc.run_recovery()  # periodic sweep on a healthy run
    e.deliver(is_("StartStage", c_id))  # the sweep's StartStage(C) overtakes SkipStage(C)
    e.fifo()
    got = e.store.retrieve(wf.id)
    c = [s for s in got.stages if s.ref_id == "C"][0]
    res = c.status.name == "SUCCEEDED" and "C" in SEEN
    e.close()
    return res, f"deselected branch C ended {c.status.name} and its task ran: {'C' in SEEN}"


def signal_between_claim_and_plan_commit_wedges_the_stage():
    """C07 / C18: SignalStage(persistent) handled between StartStage's claim commit and its plan commit."""
    from stabilize.handlers.start_stage.handler import StartStageHandler
    from stabilize.hitl import send_signal

    e = Env()
    wf = Workflow.create(application="v", name="gate", stages=[stage("A"), stage("G", ("A",))])
    e.orch.start(wf)
    g_id = wf.stages[1].id
    e.fifo(until=lambda env: any(t == "StartStage" and p["stage_id"] == g_id for _, t, p in env.pending()))
    send_signal(e.queue, wf.id, g_id, "go", {"n": 1}, persistent=True)
    orig = StartStageHandler._plan_stage

    def plan_with_signal_in_between(self, stage):
        # "another worker" handles the SignalStage exactly here (after the claim commit, before the plan commit)
        sig_handler = e.proc._handlers[[k for k in e.proc._handlers if k.__name__ == "SignalStage"][0]]
        m = e.queue.poll_one()
        while m is not None and type(m).__name__ != "SignalStage":
            m = e.queue.poll_one()
        sig_handler.handle(m)
        e.queue.ack(m)
        return orig(self, stage)

    StartStageHandler._plan_stage = plan_with_signal_in_between
    try:
        c = e.conn()
        c.execute("UPDATE queue_messages SET deliver_at='1970-01-01T00:00:00+00:00' WHERE message_type='StartStage'")
        c.execute("UPDATE queue_messages SET deliver_at='2000-01-01T00:00:00+00:00' WHERE message_type='SignalStage'")
        c.commit()
        e.proc.process_one()
    finally:
        StartStageHandler._plan_stage = orig
    e.fifo()
    got = e.store.retrieve(wf.id)
    g = [s for s in got.stages if s.ref_id == "G"][0]
    res = got.status.name == "RUNNING" and g.status.name == "RUNNING" and not e.pending() and "G" not in SEEN
    e.close()
    return res, f"workflow {got.status.name}, G {g.status.name}, queue empty, G's task never ran, buffer {g.context.get('_buffered_signals')}"


def stale_inherited_outputs_on_second_loop_iteration():
    """C16: B keeps seeing A's first-iteration output."""
    e = Env()
    c = stage("C", ("B",), impl="jump")
    wf = Workflow.create(application="v", name="loop3", stages=[stage("A"), stage("B", ("A",)), c])
    e.orch.start(wf)
    e.fifo()
    got = e.store.retrieve(wf.id)
    its = [ctx.get("it") for ctx in SEEN.get("B", [])]
    a_out = [s for s in got.stages if s.ref_id == "A"][0].outputs.get("it")
    res = len(its) == 2 and its[1] == 0 and a_out == 1
    e.close()
    return res, f"B saw it={its} over two iterations while A's durable output is it={a_out}"


def pause_before_complete_workflow_dead_letters_it():
    """C05: pause after the last task, before CompleteWorkflow."""
    e = Env()
    wf = Workflow.create(application="v", name="one", stages=[stage("A")])
    e.orch.start(wf)
    e.fifo(until=lambda env: any(t == "CompleteWorkflow" for _, t, _ in env.pending()))
    e.store.pause(wf.id, "operator")
    for _ in range(12):
        e.fifo(limit=1)
    e.queue.check_and_move_expired()
    got = e.store.retrieve(wf.id)
    res = got.status.name == "PAUSED" and e.queue.dlq_size() == 1
    e.orch.unpause(got)
    e.fifo()
    got = e.store.retrieve(wf.id)
    res = res and got.status.name == "PAUSED"
    e.close()
    return res, f"workflow {got.status.name} after unpause, CompleteWorkflow in the DLQ"


def crash_between_claim_and_plan_with_stale_task_message_strands_the_stage():
    """C01: jump loop A->A; the second StartStage(A) dies after its claim commit while the first iteration's
    CompleteTask(REDIRECT) is still queued: recovery pushes nothing, both messages are ignored."""
    from stabilize.handlers.start_stage.handler import StartStageHandler

    e = Env()
    wf = Workflow.create(application="v", name="loop", stages=[stage("A", impl="jump"), stage("B", ("A",))])
    e.orch.start(wf)
    for t in ("StartWorkflow", "StartStage", "StartTask", "RunTask", "JumpToStage"):
        e.deliver(is_(t))
    # pending now: CompleteTask(REDIRECT) [stale], StartStage(A) [second iteration]

    class Die(BaseException):
        pass

    orig = StartStageHandler._plan_stage

    def die(self, stage):
        raise Die()

    StartStageHandler._plan_stage = die
    try:
        try:
            e.deliver(is_("StartStage"))
        except Die:
            pass
    finally:
        StartStageHandler._plan_stage = orig
    c = e.conn()
    if c.in_transaction:
        c.rollback()
    e.proc.run_recovery()  # fresh worker: recovery sweep, then everything that is queued, locks lapsed
    e.fifo()
    got = e.store.retrieve(wf.id)
    a = [s for s in got.stages if s.ref_id == "A"][0]
    res = got.status.name == "RUNNING" and a.status.name == "RUNNING" and a.tasks[0].status.name == "NOT_STARTED" \
        and not e.pending()
    e.close()
    return res, f"workflow {got.status.name}, A {a.status.name}, task {a.tasks[0].status.name}, queue empty"


def late_branch_between_claim_and_plan_commit_wedges_the_join():
    """C04 (same swallowed CAS failure as C07/C18): first-of join D of (E, F); CompleteStage(F) records
    _completed_branches into D between StartStage(D)'s claim commit and its plan commit."""
    from stabilize.handlers.start_stage.handler import StartStageHandler

    e = Env()
    d = StageExecution(ref_id="D", name="D", type="t", requisite_stage_ref_ids={"E", "F"}, join_type=JoinType.DISCRIMINATOR,
                       tasks=[TaskExecution.create(name="t", implementing_class="ok", stage_start=True, stage_end=True)])
    wf = Workflow.create(application="v", name="firstof", stages=[stage("E"), stage("F"), d])
    e.orch.start(wf)
    ids = {s.ref_id: s.id for s in wf.stages}
    e.deliver(is_("StartWorkflow"))
    # run E to completion (this queues StartStage(D)), run F up to its CompleteStage
    for t in ("StartStage", "StartTask", "RunTask", "CompleteTask", "CompleteStage"):
        e.deliver(is_(t, ids["E"]))
    for t in ("StartStage", "StartTask", "RunTask", "CompleteTask"):
        e.deliver(is_(t, ids["F"]))
    orig = StartStageHandler._plan_stage

    def plan_with_late_branch_in_between(self, stage):
        h = e.proc._handlers[[k for k in e.proc._handlers if k.__name__ == "CompleteStage"][0]]
        m = e.queue.poll_one()
        while m is not None and not (type(m).__name__ == "CompleteStage" and m.stage_id == ids["F"]):
            m = e.queue.poll_one()
        h.handle(m)
        e.queue.ack(m)
        return orig(self, stage)

    StartStageHandler._plan_stage = plan_with_late_branch_in_between
    try:
        e.deliver(is_("StartStage", ids["D"]))
    finally:
        StartStageHandler._plan_stage = orig
    e.fifo()
    got = e.store.retrieve(wf.id)
    dd = [s for s in got.stages if s.ref_id == "D"][0]
    res = got.status.name == "RUNNING" and dd.status.name == "RUNNING" and dd.tasks[0].status.name == "NOT_STARTED" \
        and not e.pending()
    e.close()
    return res, f"workflow {got.status.name}, join D {dd.status.name}, its task {dd.tasks[0].status.name}, queue empty"


ALL = [stale_complete_task_redirect_wedges_the_loop, crash_between_claim_and_plan_loses_upstream_outputs,
       recovery_revives_branch_deselected_by_or_split, signal_between_claim_and_plan_commit_wedges_the_stage,
       stale_inherited_outputs_on_second_loop_iteration, pause_before_complete_workflow_dead_letters_it,
       crash_between_claim_and_plan_with_stale_task_message_strands_the_stage,
       late_branch_between_claim_and_plan_commit_wedges_the_join]

if __name__ == "__main__":
    bad = 0
    for f in ALL:
        try:
            ok, msg = f()
        except Exception as ex:  # noqa: BLE001
            ok, msg = False, f"{type(ex).__name__}: {ex}"
        print(("REPRODUCED     " if ok else "not reproduced ") + f.__name__ + " - " + msg)
        bad += 0 if ok else 1
    sys.exit(1 if bad else 0)
